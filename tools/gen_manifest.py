#!/usr/bin/env python3
"""Writes /verif/MANIFEST.json (kept as a generator so that the per-property texts stay in one place)."""
import json
import os

VERIF = os.path.dirname(os.path.dirname(os.path.abspath(__file__)))
props = [json.loads(l) for l in open(os.path.join(VERIF, "properties.jsonl"))]
T = {
"C01": ("Every received-set (all subsets with >= k of the k+r shards) of every configuration in [1..5]^2 (thorough [1..6]^2, chunk-edge configurations to n=17, one n=20) x {high,low,default,ReedSolomon*,one-shot} x all engines incl. emulated Neon is decoded on the real code from soiled working space and compared with the original data (also with shards of 4162 to 16450 (65730) bytes); a grid of mid-size configurations around every chunk-size boundary up to 4097 (8193) and large/envelope configurations (transform size classes up to the whole field) by complete pattern families, including hyperplane-shaped losses on whole-field configurations and 24 scattered erasure sets (exactly sufficient and with one surplus shard) wherever the work area reaches beyond position 32768; for 6 (8) mid-size configurations such as (70,70), (100,36), (36,100) every interval of missing originals, every pair of missing originals, every pair of recovery shards and every sub-cube loss {i : i & m == v} over all masks of the index bits (all chunk-, word- and stride-aligned patterns) through the rate codecs, ReedSolomon* and the one-shot functions; data with particular symbol values (zero shard, equal shards, 0xFFFF, equal halves).",
        "explicit-state enumeration of the received-set lattice on the real decoder"),
"C02": ("The implementation's whole generator matrix is read back (basis-in-slots data for [1..64]^2 / [1..130]^2, unit vectors for a grid up to 4097 (8193) and for envelope configurations) and compared entry by entry with the closed form of the property computed by an independent field implementation; ancestor crate reed-solomon-16 as second oracle; every recovery byte of dense shards with short final blocks and of long shards (to 16 KiB, thorough 64 KiB), two rounds per encoder, against G*data, also for data made of particular symbol values (an all-zero shard, two equal shards, 0xFFFF, equal low/high halves, cycles of 0/1/0xFFFF/0x00FF/0xFF00/0x8000) on [1..8]^2 and mid-size configurations. Per configuration the comparison is total (the matrix is the function).",
        "small-scope exhaustive enumeration against a closed-form oracle"),
"C03": ("Every engine against Naive: every truncated_size of every power-of-two size up to 2^10 (2^12), every size class up to 2^16 at 6 truncated sizes, 8 skew offsets, 2 positions, 1-3 and 65/130/257 blocks; every log_m for mul; sparse and identical-shard inputs; indicator families for eval_poly; encode + every exactly-k received-set end to end; guard shards unchanged.",
        "small-scope exhaustive enumeration of primitive arguments, differential between engines"),
"C04": ("Every even shard size 2..132 (thorough ..260) plus big sizes (1022..131138 bytes, values that do not fit 16 bits, block counts with remainders), configurations on the edge of the envelope with short final blocks, every single missing original of mid-size configurations, and calls carrying several MiB: lengths, slots re-coded alone as 2-byte shards, G*data with the documented byte placement, decode patterns; soiled working space puts stale bytes into unused lanes.",
        "small-scope exhaustive enumeration with self-differential and closed-form oracles"),
"C05": ("Every sequence of d<=2 (thorough 3) rounds on one object over 11 colliding configurations x {reset, implicit reset, recycle into high/low/default} x {completed, abandoned} earlier rounds x {fresh, soiled} start, plus all d=3 sequences over a reduced 7-member alphabet in the quick tier, every supported sequence of 2 (3) rounds over a second alphabet of mid-size and whole-field configurations, for decoders every pair of received-set shapes (incl. mirrored ones whose bitmaps coincide across rates), and every sequence of 4 rounds over 3 (4) colliding configurations x every transition x middle rounds completed/abandoned with rejected calls (wrong-length, duplicate, out-of-range and surplus adds with foreign bytes, rejected resets, early decode) injected in round 3 or 4, rounds joined by implicit resets also with structured data (zero shard, equal shards) in every round; last round compared with a fresh object and with the reference.",
        "explicit-state enumeration of round histories on the real objects, differential against a fresh object"),
"C06": ("Breadth-first search over call histories (depth 4, thorough 6; repeated without state merging to depth 3 / 4) on all 8 codec types from 4 start configurations (+ a start with more than 1 MiB of working space, + a configuration whose two rate layouts differ in size), argument alphabet incl. hand-over of the working space to every other codec kind, with 0, off-by-one, usize::MAX, wrap-around indexes and aliases of index 0 under truncation to 8/16/32 bits, wrong lengths, several violations at once; every observation must be in the reference model's set of truthful outcomes; the one-shot functions over 26 000 argument tuples; checked build (overflow checks on).",
        "explicit-state BFS of API histories against a reference model, exact state merging plus an unmerged pass"),
"C07": ("Twin runs: for every merged history h (depth<=2, thorough 3), every failing call f enabled after h and every continuation c (depth<=1, thorough 2, completed to a full round) the observations after h++[f]++c equal those after h++c call for call; rejected adds carry foreign bytes, encoder rounds alternate between sparse data (only the first shard non-zero) and dense data.",
        "explicit-state enumeration of histories with differential twin runs"),
"C08": ("All 65538^2 (k,r) pairs for each of the 8 supports() entry points against the README predicate (whole domain), extremes to usize::MAX (incl. 2^32+1, 2^32+2, 2^48+1: aliases of small counts under truncation), validate/new/reset agreement at every staircase corner and neighbour x 7 shard sizes x 4 codec kinds, real round trips at supported corners.",
        "whole-domain enumeration"),
"C09": ("Default-rate encoder/decoder, ReedSolomonEncoder/Decoder and one-shot functions against the dedicated codec selected by the rule for every (k,r) in [1..40]^2 (thorough [1..130]^2 + power-of-two neighbours), a grid up to 4097 (8193), on generator-revealing data, also with short final blocks, long shards and 1-2 MiB shards through every layer; every sequence of up to 3 resets over a 9-member alphabet straddling the rule, each also with rejected resets interleaved.",
        "small-scope exhaustive enumeration + reset-history enumeration, differential between API layers"),
"C10": ("Every argument tuple of encode()/decode() over 8 count pairs and all original/recovery lists up to the length bound over (index alphabet) x (5 shard classes), compared with the equivalent streaming sequence and with the set of truthful errors; unsupported count pairs (also inside 1..65536 with a sum of at most 65536) with complete valid input; every ordered pair of calls from a reduced alphabet on one fresh thread (the second call must behave like a first); every original_count 1..140 (300) x recovery_count {1,3,64} with complete / empty / one-short inputs (the short-cut paths) and every pair of missing originals of (100,10) and (70,70); every call is made under three size_hint behaviours of the argument iterators (exact, loose upper bound, unknown).",
        "small-scope exhaustive enumeration of argument tuples and call pairs, differential against the streaming API"),
"C11": ("Explicit-state search of the received-set lattice with concrete-state merging: every order of every subset for all (k,r) with k+r<=7 (thorough 10); every state with >= k shards decoded; unmerged cross-checks: all permutations for k+r<=5 (6) and every ordered k- and (k+1)-tuple of shards for skewed configurations such as (3,8), (2,12), (3,17); on configurations whose work area reaches beyond position 32768, 12 scattered erasure sets each exactly sufficient and with one surplus shard, in two arrival orders.",
        "explicit-state search with exact state merging, plus unmerged order enumeration"),
"C12": ("Accessor contracts (index arguments to usize::MAX and aliases of valid indexes under truncation to 8/16/32/48 bits, iterator order and exhaustion; nth, skip, step_by, count, last, size_hint after every consumed prefix) after every encode and in every decodable received-set for k+r<=5 (7) (surplus sets in two add orders), for every single missing original of mid-size configurations, every ordered pair (triple) of received-sets and 6 consecutive rounds on one object separated only by dropping the result, 6-round histories on configurations up to the whole field, and runs of 1100 (70000) consecutive rounds; checked build.",
        "explicit-state enumeration of result states and round sequences"),
"C13": ("Oracle-free: zero, every symbol value on every coordinate axis, every weight<=3 combination of basis vectors, every field constant times basis vectors, dense pairs, deltas confined to one 64-byte block of one shard and identical shards against their decomposition (192/200-byte shards); [1..5]^2 (thorough [1..9]^2 + (33,3),(3,33)) x {high,low} x 5 engines.",
        "small-scope exhaustive enumeration of linear relations (oracle-free)"),
"C14": ("One fresh process per subset of {AVX2,SSSE3} and of {Neon} (ported AArch64 arm): after every operation of an alphabet covering everything built on DefaultEngine the ISA trace must show only the best reported ISA for every primitive, and no evaluation of the shared eval_poly block outside an ISA entry point; results identical under all subsets. The property's whole quantifier is enumerated.",
        "exhaustive enumeration of environment answers (feature masks) with an execution-trace monitor"),
"C15": ("Every table entry (exp, log, skew, log-Walsh by definition, Mul16, Mul128); all 2^32 (symbol, log_m) pairs per engine; fft/ifft against evaluation in the LCH basis for n<=6 (thorough 10, and 11-12) at every truncated_size, every size class up to 2^16 and shards of 65-257 blocks on every engine; eval_poly against the sum-of-logs formula for unit vectors (all 65536 in thorough), pairs, prefixes, every decoder-built erasure vector, and ~400 (~2000) large structured vectors (hyperplane halves, residue classes, blocks, random densities, complements) against an exact XOR-convolution reference.",
        "whole-domain / small-scope exhaustive enumeration against definitions"),
"C16": ("Repository source re-targeted onto shuttle; own iterative-context-bounding DFS scheduler: every schedule of the 2-thread scenarios and every schedule with <=2 (3) preemptions of the 3-thread and hand-over scenarios; each execution compared thread by thread (different data and erasure pattern per thread) with sequential use; deadlocks and panics reported; first use of every table family races in every execution, also two threads on the same table; threads that exit while a thread-local slot of their own owns codecs (both destructor orders); the port adds scheduling points at reference counting and after atomic writes; available_parallelism is answered by the harness (2).",
        "controlled-scheduler exploration of thread interleavings (bounded-preemption DFS, real code)"),
"C17": ("Counting global allocator; every history of <=2 (3) steps over {round, abandoned round, reset, recycle into high/low/default} after the object holds the maximum, for five families (32 KiB shards, 512 KiB shards / multi-MiB working space, thousands of shards, and - after a warm-up with the layout-dominant member only - equal block counts with and without a short final block, and received-map positions where a member with fewer positions has more recovery shards or both counts in one power-of-two class), executed at two scales (shard sizes doubled / counts doubled): bytes allocated in the measured region must not grow with scale; positive control in every run.",
        "explicit-state enumeration of histories with an allocation monitor, scale-differential"),
}
N = {
"C01": "Bounded configurations and shard contents (GF(2)-basis + dense samples; all data by linearity C13 / slot independence C04). Trusted: rustc, this CPU's SIMD units, harness round-trip code.",
"C02": "Trusted: gfref (own GF(2^16) from 0x1002D + Cantor basis; self-checked: bilinear multiplication grid, inverses, MDS of every minor for k,r<=5). Bounded configuration set.",
"C03": "Garbage bytes the Engine contract leaves undefined are not compared (Naive and the optimised engines legitimately differ there). Neon via emulated intrinsics with architectural TBL/USHR semantics.",
"C04": "Sizes bounded; slots beyond 100 per shard checked at block edges and tail.",
"C05": "Soiled contents are pseudo-random non-zero bytes (linear kernels: any dependence shows unless cancelled); depth bounded.",
"C06": "Depth-bounded; shard sizes too large to allocate are outside the property. Merging relies on verif_digest covering the concrete state as of the hook commit (hook H3); the unmerged pass covers state a change may add elsewhere, to its depth.",
"C07": "Depth-bounded; a failing new(.., Some(work)) consumes the object by move and is not a failed call on an object.",
"C08": "Whole domain for supports(); agreement and round trips at corners only. README predicate as transcribed in DESIGN.md.",
"C09": "Rule observable only where the two rates produce different bytes (counted in evidence).",
"C10": "List lengths bounded (originals<=2/3, recovery<=1/2) plus all valid received-sets; pairs on fresh OS threads (process-global hidden state would persist between pairs).",
"C11": "k+r bounded; merging exact w.r.t. the digested fields, verdicts only on decode output.",
"C12": "k+r bounded for the exhaustive parts; long runs of one fixed pattern.",
"C13": "Additivity exhaustive per axis and up to weight 3 across axes; structural closure by C15 (kernels are XORs of table look-ups verified entry by entry).",
"C14": "Mask can only hide features this CPU has; trace points sit in every existing target_feature entry point (a new untraced entry point would be invisible, reported as machinery error when nothing is traced).",
"C15": "fft/ifft beyond n=10 only at decoder shapes and sampled output points; not all 2^65536 indicator vectors (structured families + linearity in the indicator).",
"C16": "Scheduling points = shuttle sync/thread/lazy operations; sequentially consistent; unsynchronised accesses (static mut, UnsafeCell) have no scheduling point of their own (the window after an atomic write has one); std's LazyLock modelled by shuttle's blocking Once.",
"C17": "Allocation on the measuring thread only; criterion is growth with scale, so constant allocations are never reported. The block-count and bitmap-layout families take the need of a configuration from the documented layout (positions x ceil(bytes/64)).",
}
checks = []
for p in props:
    i = p["id"]
    checks.append({
        "property_id": i,
        "quick_cmd": f"./check {i} --tier quick",
        "thorough_cmd": f"./check {i} --tier thorough",
        "evidence_file": f"/verif/evidence/{i}.json",
        "replay_cmd_template": f"./check {i} --replay {{path}}",
        "engine": "conc" if i == "C16" else "rsmc",
        "level_claimed": {"category": "model_checking", "text": T[i][0], "design_ref": f"DESIGN.md section 3, {i}"},
        "level_note": N[i],
        "technique": T[i][1],
    })
m = {
    "version": 1,
    "setup_cmd": "./check --setup",
    "hooks": {
        "guard": "verif-hooks",
        "enable": "cargo feature `verif-hooks` of reed-solomon-simd, switched on by the path dependency in /verif/harness/rsmc/Cargo.toml",
        "baseline_off_cmd": "cd /repo && cargo nextest run --workspace --no-fail-fast --test-threads 8 --offline || cargo test --workspace --no-fail-fast --offline",
        "source_commits": ["45c9bd6", "c41168a", "b372c6b", "21af18f"],
        "add_only": True,
    },
    "engines": [
        {"name": "rsmc", "path": "/verif/harness/rsmc", "serves_properties": [p["id"] for p in props if p["id"] != "C16"], "kind_free_text": "bounded exhaustive explorers over the real crate (explicit-state history search, small-scope/whole-domain enumeration), reference model gfref"},
        {"name": "conc", "path": "/verif/harness/conc-template + /verif/tools/port_conc.py", "serves_properties": ["C16"], "kind_free_text": "repository source re-targeted onto shuttle; own bounded-preemption DFS scheduler"},
    ],
    "checks": checks,
    "not_applicable": [],
    "notes": "All checks rebuild from /repo's working tree (path dependency / regenerated port). Fix commits in /repo: bbcb13b c25c625 a448b44 (see known_findings.json). Seeded changes (seven rounds) and which checks catch them: seeded/README.md.",
}
json.dump(m, open(os.path.join(VERIF, "MANIFEST.json"), "w"), indent=1)
print("MANIFEST.json written")
