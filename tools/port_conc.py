#!/usr/bin/env python3
"""Regenerates the `conc` crate: the whole /repo/src tree re-targeted, textually, onto shuttle's
sync / thread / lazy primitives, so that every synchronisation operation the source performs -- today
five LazyLock tables, tomorrow whatever a change introduces through std::sync or std::thread -- runs
under the controlled scheduler. No repository change is needed.

usage: port_conc.py <repo> <outdir>
Files are only rewritten when their content changes (keeps cargo's incremental build effective).
"""
import os
import re
import sys

repo, out = sys.argv[1], sys.argv[2]
here = os.path.dirname(os.path.abspath(__file__))
template = os.path.join(os.path.dirname(here), "harness", "conc-template")


def put(path, content):
    os.makedirs(os.path.dirname(path), exist_ok=True)
    try:
        if open(path).read() == content:
            return
    except FileNotFoundError:
        pass
    open(path, "w").write(content)


SHIM = '''
// ---------------------------------------------------------------- shuttle shims (generated)
pub mod vsync {
    pub use shuttle::sync::*;
    /// std::sync::LazyLock over shuttle's Lazy (a blocking Once: initialised at most once per
    /// execution, racers block until the initialiser returns) - the semantics of std's LazyLock.
    pub struct LazyLock<T: Sync + 'static>(shuttle::lazy_static::Lazy<T>);
    impl<T: Sync + 'static> LazyLock<T> {
        pub const fn new(f: fn() -> T) -> Self {
            Self(shuttle::lazy_static::Lazy::new(f))
        }
        pub fn force(this: &Self) -> &T {
            &**this
        }
    }
    impl<T: Sync + 'static> std::ops::Deref for LazyLock<T> {
        type Target = T;
        fn deref(&self) -> &T {
            // statics only: the reference really is 'static
            let s: &'static Self = unsafe { std::mem::transmute(self) };
            s.0.get()
        }
    }
}
pub mod vthread {
    pub use shuttle::thread::*;
}
/// harness-side event log (plain std mutex: deliberately not a scheduling point)
pub mod vtrace {
    // per OS thread = per shuttle runner (shuttle runs all tasks of an execution on the runner's thread)
    thread_local! {
        static LOG: std::cell::RefCell<Vec<(&'static str, usize)>> = const { std::cell::RefCell::new(Vec::new()) };
    }
    pub fn init_event(name: &'static str) {
        let id: usize = shuttle::thread::current().id().into();
        LOG.with(|l| l.borrow_mut().push((name, id)));
    }
    pub fn take() -> Vec<(&'static str, usize)> {
        LOG.with(|l| std::mem::take(&mut *l.borrow_mut()))
    }
}
'''

n_sync = 0
src = os.path.join(repo, "src")
for root, dirs, files in os.walk(src):
    rel = os.path.relpath(root, src)
    for f in files:
        if not f.endswith((".rs", ".md")):
            continue
        s = open(os.path.join(root, f)).read()
        if f.endswith(".rs"):
            n_sync += s.count("std::sync::") + len(re.findall(r"std::thread\b", s))
            s = s.replace("std::sync::", "crate::vsync::")
            # std::thread_local! -> shuttle's (per-shuttle-thread storage); std::thread -> shuttle threads
            s = s.replace("std::thread_local!", "shuttle::thread_local!")
            s = re.sub(r"(?<![\w:])thread_local!", "shuttle::thread_local!", s)
            s = s.replace("shuttle::shuttle::thread_local!", "shuttle::thread_local!")
            s = re.sub(r"std::thread\b", "crate::vthread", s)
            # `use std::{sync::X, ...}` style imports would escape the substitution: refuse loudly
            if re.search(r"use\s+std::\{[^}]*\b(sync|thread)\b", s):
                sys.exit(f"port_conc: grouped std import of sync/thread in {f}: extend the port script")
            if f == "tables.rs":
                # mark table initialisers (harness-side log of who initialised what, in which order)
                s = re.sub(r"(fn (initialize_\w+)\([^)]*\)[^{]*\{\n)", lambda m: m.group(1) + f'    crate::vtrace::init_event("{m.group(2)}");\n', s)
        if rel == "." and f == "lib.rs":
            s = s.replace('#![doc = include_str!(concat!(env!("OUT_DIR"), "/README-rustdocified.md"))]', "")
            s = s.replace("#![deny(missing_docs)]", "#![allow(warnings)]")
            s += SHIM
        put(os.path.join(out, "src", rel, f), s)

put(os.path.join(out, "Cargo.toml"), '''[package]
name = "conc"
version = "0.0.0"
edition = "2021"

[lib]
name = "rs_ported"
path = "src/lib.rs"

[[bin]]
name = "conc"
path = "main.rs"

[features]
verif-hooks = []

[dependencies]
shuttle = "0.9.3"
fixedbitset = "0.4.0"

[profile.release]
opt-level = 3
debug = false
panic = "unwind"
''')
put(os.path.join(out, "main.rs"), open(os.path.join(template, "main.rs")).read())
lock = os.path.join(template, "Cargo.lock")
if True:
    put(os.path.join(out, "Cargo.lock"), open(lock if os.path.exists(lock) else os.path.join(os.path.dirname(template), "Cargo.lock")).read())
put(os.path.join(out, ".cargo", "config.toml"), "[net]\noffline = true\n")
print(f"port_conc: ok ({n_sync} std::sync/std::thread references re-targeted)")
