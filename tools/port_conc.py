#!/usr/bin/env python3
"""Regenerates the `conc` crate: the whole /repo/src tree re-targeted, textually, onto shuttle's
sync / thread / lazy primitives, so that every synchronisation operation the source performs -- today
five LazyLock tables, tomorrow whatever a change introduces through std::sync or std::thread -- runs
under the controlled scheduler. No repository change is needed.

usage: port_conc.py <repo> <outdir>
Files are only rewritten when their content changes (keeps cargo's incremental build effective).
"""
import os
import re
import sys

repo, out = sys.argv[1], sys.argv[2]
here = os.path.dirname(os.path.abspath(__file__))
template = os.path.join(os.path.dirname(here), "harness", "conc-template")


def put(path, content):
    os.makedirs(os.path.dirname(path), exist_ok=True)
    try:
        if open(path).read() == content:
            return
    except FileNotFoundError:
        pass
    open(path, "w").write(content)


SHIM = '''
// ---------------------------------------------------------------- shuttle shims (generated)
pub mod vsync {
    pub use shuttle::sync::*;

    /// shuttle re-exports std's Arc, whose reference counting has no scheduling point: code that
    /// synchronises through Arc/Weak (upgrade vs. last drop) would be explored vacuously. This wrapper
    /// yields to the scheduler before every reference-count operation.
    pub struct Arc<T: ?Sized>(std::sync::Arc<T>);
    pub struct Weak<T: ?Sized>(std::sync::Weak<T>);
    // `Arc<E>` -> `Arc<dyn Trait>` like std's (needs the unstable marker traits; the port is built with
    // RUSTC_BOOTSTRAP=1 for exactly this)
    impl<T: ?Sized + std::marker::Unsize<U>, U: ?Sized> std::ops::CoerceUnsized<Arc<U>> for Arc<T> {}
    impl<T: ?Sized + std::marker::Unsize<U>, U: ?Sized> std::ops::CoerceUnsized<Weak<U>> for Weak<T> {}
    impl<T> Arc<T> {
        pub fn new(t: T) -> Self {
            Arc(std::sync::Arc::new(t))
        }
        pub fn try_unwrap(this: Self) -> Result<T, Self> {
            crate::vpoint::point();
            let inner = unsafe { std::ptr::read(&this.0) };
            std::mem::forget(this);
            std::sync::Arc::try_unwrap(inner).map_err(Arc)
        }
        pub fn into_inner(this: Self) -> Option<T> {
            crate::vpoint::point();
            let inner = unsafe { std::ptr::read(&this.0) };
            std::mem::forget(this);
            std::sync::Arc::into_inner(inner)
        }
    }
    impl<T: ?Sized> Arc<T> {
        pub fn downgrade(this: &Self) -> Weak<T> {
            crate::vpoint::point();
            Weak(std::sync::Arc::downgrade(&this.0))
        }
        pub fn strong_count(this: &Self) -> usize {
            crate::vpoint::point();
            std::sync::Arc::strong_count(&this.0)
        }
        pub fn weak_count(this: &Self) -> usize {
            crate::vpoint::point();
            std::sync::Arc::weak_count(&this.0)
        }
        pub fn ptr_eq(a: &Self, b: &Self) -> bool {
            std::sync::Arc::ptr_eq(&a.0, &b.0)
        }
        pub fn get_mut(this: &mut Self) -> Option<&mut T> {
            crate::vpoint::point();
            std::sync::Arc::get_mut(&mut this.0)
        }
        pub fn as_ptr(this: &Self) -> *const T {
            std::sync::Arc::as_ptr(&this.0)
        }
    }
    impl<T: Clone> Arc<T> {
        pub fn make_mut(this: &mut Self) -> &mut T {
            crate::vpoint::point();
            std::sync::Arc::make_mut(&mut this.0)
        }
    }
    impl<T: ?Sized> Clone for Arc<T> {
        fn clone(&self) -> Self {
            crate::vpoint::point();
            Arc(self.0.clone())
        }
    }
    impl<T: ?Sized> Drop for Arc<T> {
        fn drop(&mut self) {
            // the decrement itself happens when the field is dropped, right after this point
            crate::vpoint::point();
        }
    }
    impl<T: ?Sized> std::ops::Deref for Arc<T> {
        type Target = T;
        fn deref(&self) -> &T {
            &self.0
        }
    }
    impl<T: ?Sized> AsRef<T> for Arc<T> {
        fn as_ref(&self) -> &T {
            &self.0
        }
    }
    impl<T: Default> Default for Arc<T> {
        fn default() -> Self {
            Arc::new(T::default())
        }
    }
    impl<T> From<T> for Arc<T> {
        fn from(t: T) -> Self {
            Arc::new(t)
        }
    }
    impl<T: ?Sized + std::fmt::Debug> std::fmt::Debug for Arc<T> {
        fn fmt(&self, f: &mut std::fmt::Formatter<'_>) -> std::fmt::Result {
            self.0.fmt(f)
        }
    }
    impl<T: ?Sized + PartialEq> PartialEq for Arc<T> {
        fn eq(&self, o: &Self) -> bool {
            self.0 == o.0
        }
    }
    impl<T> Weak<T> {
        pub fn new() -> Self {
            Weak(std::sync::Weak::new())
        }
    }
    impl<T: ?Sized> Weak<T> {
        pub fn upgrade(&self) -> Option<Arc<T>> {
            crate::vpoint::point();
            self.0.upgrade().map(Arc)
        }
        pub fn strong_count(&self) -> usize {
            crate::vpoint::point();
            self.0.strong_count()
        }
    }
    impl<T: ?Sized> Clone for Weak<T> {
        fn clone(&self) -> Self {
            crate::vpoint::point();
            Weak(self.0.clone())
        }
    }
    impl<T> Default for Weak<T> {
        fn default() -> Self {
            Weak::new()
        }
    }

    /// shuttle's atomics yield *before* every operation only. A thread that publishes through an atomic
    /// write and then goes on writing plain memory (pointer or flag published before the data it
    /// guards) would run to its next synchronisation without a scheduling point, and the window would
    /// never be explored. These wrappers yield once more *after* every operation that writes.
    pub mod atomic {
        pub use shuttle::sync::atomic::{compiler_fence, fence, Ordering};
        use shuttle::sync::atomic as sa;
        #[inline]
        fn after<R>(r: R) -> R {
            crate::vpoint::point();
            r
        }
        macro_rules! common {
            ($t:ty) => {
                pub fn get_mut(&mut self) -> &mut $t {
                    self.0.get_mut()
                }
                pub fn into_inner(self) -> $t {
                    self.0.into_inner()
                }
                pub fn load(&self, o: Ordering) -> $t {
                    self.0.load(o)
                }
                pub fn store(&self, v: $t, o: Ordering) {
                    after(self.0.store(v, o))
                }
                pub fn swap(&self, v: $t, o: Ordering) -> $t {
                    after(self.0.swap(v, o))
                }
                pub fn fetch_update<F: FnMut($t) -> Option<$t>>(&self, so: Ordering, fo: Ordering, f: F) -> Result<$t, $t> {
                    after(self.0.fetch_update(so, fo, f))
                }
                pub fn compare_exchange(&self, c: $t, n: $t, s: Ordering, f: Ordering) -> Result<$t, $t> {
                    after(self.0.compare_exchange(c, n, s, f))
                }
                pub fn compare_exchange_weak(&self, c: $t, n: $t, s: Ordering, f: Ordering) -> Result<$t, $t> {
                    after(self.0.compare_exchange_weak(c, n, s, f))
                }
            };
        }
        macro_rules! wrap_int {
            ($($name:ident $t:ty),*) => {$(
                #[derive(Debug, Default)]
                pub struct $name(sa::$name);
                impl $name {
                    pub const fn new(v: $t) -> Self {
                        Self(sa::$name::new(v))
                    }
                    common!($t);
                    pub fn fetch_add(&self, v: $t, o: Ordering) -> $t { after(self.0.fetch_add(v, o)) }
                    pub fn fetch_sub(&self, v: $t, o: Ordering) -> $t { after(self.0.fetch_sub(v, o)) }
                    pub fn fetch_and(&self, v: $t, o: Ordering) -> $t { after(self.0.fetch_and(v, o)) }
                    pub fn fetch_nand(&self, v: $t, o: Ordering) -> $t { after(self.0.fetch_nand(v, o)) }
                    pub fn fetch_or(&self, v: $t, o: Ordering) -> $t { after(self.0.fetch_or(v, o)) }
                    pub fn fetch_xor(&self, v: $t, o: Ordering) -> $t { after(self.0.fetch_xor(v, o)) }
                    pub fn fetch_max(&self, v: $t, o: Ordering) -> $t { after(self.0.fetch_max(v, o)) }
                    pub fn fetch_min(&self, v: $t, o: Ordering) -> $t { after(self.0.fetch_min(v, o)) }
                }
                impl From<$t> for $name {
                    fn from(v: $t) -> Self { Self::new(v) }
                }
            )*};
        }
        wrap_int!(AtomicI8 i8, AtomicI16 i16, AtomicI32 i32, AtomicI64 i64, AtomicIsize isize,
                  AtomicU8 u8, AtomicU16 u16, AtomicU32 u32, AtomicU64 u64, AtomicUsize usize);
        #[derive(Debug, Default)]
        pub struct AtomicBool(sa::AtomicBool);
        impl AtomicBool {
            pub const fn new(v: bool) -> Self {
                Self(sa::AtomicBool::new(v))
            }
            common!(bool);
            pub fn fetch_and(&self, v: bool, o: Ordering) -> bool { after(self.0.fetch_and(v, o)) }
            pub fn fetch_nand(&self, v: bool, o: Ordering) -> bool { after(self.0.fetch_nand(v, o)) }
            pub fn fetch_or(&self, v: bool, o: Ordering) -> bool { after(self.0.fetch_or(v, o)) }
            pub fn fetch_xor(&self, v: bool, o: Ordering) -> bool { after(self.0.fetch_xor(v, o)) }
        }
        impl From<bool> for AtomicBool {
            fn from(v: bool) -> Self { Self::new(v) }
        }
        #[derive(Debug)]
        pub struct AtomicPtr<T>(sa::AtomicPtr<T>);
        impl<T> AtomicPtr<T> {
            pub const fn new(v: *mut T) -> Self {
                Self(sa::AtomicPtr::new(v))
            }
            common!(*mut T);
        }
        impl<T> Default for AtomicPtr<T> {
            fn default() -> Self { Self::new(std::ptr::null_mut()) }
        }
        impl<T> From<*mut T> for AtomicPtr<T> {
            fn from(v: *mut T) -> Self { Self::new(v) }
        }
    }

    /// std::sync::OnceLock (shuttle has none) over shuttle's blocking Once.
    pub struct OnceLock<T> {
        once: shuttle::sync::Once,
        val: std::cell::UnsafeCell<Option<T>>,
    }
    unsafe impl<T: Sync + Send> Sync for OnceLock<T> {}
    unsafe impl<T: Send> Send for OnceLock<T> {}
    impl<T> OnceLock<T> {
        pub const fn new() -> Self {
            Self { once: shuttle::sync::Once::new(), val: std::cell::UnsafeCell::new(None) }
        }
        pub fn get(&self) -> Option<&T> {
            crate::vpoint::point();
            if self.once.is_completed() {
                unsafe { (*self.val.get()).as_ref() }
            } else {
                None
            }
        }
        pub fn get_mut(&mut self) -> Option<&mut T> {
            self.val.get_mut().as_mut()
        }
        pub fn set(&self, v: T) -> Result<(), T> {
            let mut v = Some(v);
            self.once.call_once(|| unsafe { *self.val.get() = v.take() });
            match v {
                None => Ok(()),
                Some(v) => Err(v),
            }
        }
        pub fn get_or_init<F: FnOnce() -> T>(&self, f: F) -> &T {
            crate::vpoint::point();
            self.once.call_once(|| unsafe { *self.val.get() = Some(f()) });
            unsafe { (*self.val.get()).as_ref().expect("OnceLock initialised") }
        }
        pub fn into_inner(self) -> Option<T> {
            self.val.into_inner()
        }
        pub fn take(&mut self) -> Option<T> {
            self.once = shuttle::sync::Once::new();
            self.val.get_mut().take()
        }
    }
    impl<T> Default for OnceLock<T> {
        fn default() -> Self {
            Self::new()
        }
    }

    /// std::sync::LazyLock over shuttle's Lazy (a blocking Once: initialised at most once per
    /// execution, racers block until the initialiser returns) - the semantics of std's LazyLock.
    pub struct LazyLock<T: Sync + 'static>(shuttle::lazy_static::Lazy<T>);
    impl<T: Sync + 'static> LazyLock<T> {
        pub const fn new(f: fn() -> T) -> Self {
            Self(shuttle::lazy_static::Lazy::new(f))
        }
        pub fn force(this: &Self) -> &T {
            &**this
        }
    }
    impl<T: Sync + 'static> std::ops::Deref for LazyLock<T> {
        type Target = T;
        fn deref(&self) -> &T {
            // statics only: the reference really is 'static
            let s: &'static Self = unsafe { std::mem::transmute(self) };
            s.0.get()
        }
    }
}
/// Scheduling point for operations shuttle does not intercept (reference counting). Only inside the
/// body of an execution (the harness switches it on and off), never during runtime teardown.
pub mod vpoint {
    thread_local! {
        static ON: std::cell::Cell<bool> = const { std::cell::Cell::new(false) };
    }
    pub fn enable(on: bool) {
        ON.with(|c| c.set(on));
    }
    #[inline]
    pub fn point() {
        if ON.with(|c| c.get()) && !std::thread::panicking() {
            shuttle::thread::sleep(std::time::Duration::ZERO); // a plain context switch
        }
    }
}
pub mod vthread {
    pub use shuttle::thread::*;
    /// shuttle's Builder has no `spawn_scoped`; this one forwards everything else
    #[derive(Default)]
    pub struct Builder {
        name: Option<String>,
        stack_size: Option<usize>,
    }
    impl Builder {
        pub fn new() -> Self {
            Self::default()
        }
        pub fn name(mut self, name: String) -> Self {
            self.name = Some(name);
            self
        }
        pub fn stack_size(mut self, n: usize) -> Self {
            self.stack_size = Some(n);
            self
        }
        fn inner(self) -> shuttle::thread::Builder {
            let mut b = shuttle::thread::Builder::new();
            if let Some(n) = self.name {
                b = b.name(n);
            }
            if let Some(n) = self.stack_size {
                b = b.stack_size(n);
            }
            b
        }
        pub fn spawn<F, T>(self, f: F) -> std::io::Result<JoinHandle<T>>
        where
            F: FnOnce() -> T + Send + 'static,
            T: Send + 'static,
        {
            self.inner().spawn(f)
        }
        pub fn spawn_scoped<'scope, 'env, F, T>(self, scope: &'scope Scope<'scope, 'env>, f: F) -> std::io::Result<ScopedJoinHandle<'scope, T>>
        where
            F: FnOnce() -> T + Send + 'scope,
            T: Send + 'scope,
        {
            Ok(scope.spawn(f))
        }
    }
    /// Environment query without a shuttle counterpart. The harness decides the answer (like the CPU
    /// feature mask of C14): 2 unless CONC_PARALLELISM says otherwise, i.e. a two-CPU machine, so that
    /// budgets, pools and permit counts derived from it collide with two or three threads already.
    pub fn available_parallelism() -> std::io::Result<std::num::NonZeroUsize> {
        let n = std::env::var("CONC_PARALLELISM").ok().and_then(|v| v.parse::<usize>().ok()).unwrap_or(2);
        Ok(std::num::NonZeroUsize::new(n.max(1)).unwrap())
    }
}
/// harness-side event log (plain std mutex: deliberately not a scheduling point)
pub mod vtrace {
    // per OS thread = per shuttle runner (shuttle runs all tasks of an execution on the runner's thread)
    thread_local! {
        static LOG: std::cell::RefCell<Vec<(&'static str, usize)>> = const { std::cell::RefCell::new(Vec::new()) };
    }
    pub fn init_event(name: &'static str) {
        let id: usize = shuttle::thread::current().id().into();
        LOG.with(|l| l.borrow_mut().push((name, id)));
    }
    pub fn take() -> Vec<(&'static str, usize)> {
        LOG.with(|l| std::mem::take(&mut *l.borrow_mut()))
    }
}
'''

def split_std_groups(text):
    """`use std::{a::{x, y}, sync::Mutex, thread};` -> one `use std::...;` per top-level item, so that the
    textual re-targeting below also reaches grouped imports."""
    out = []
    i = 0
    pat = re.compile(r"(pub(?:\([a-z]+\))?\s+)?use\s+std::\{")
    while True:
        m = pat.search(text, i)
        if not m:
            out.append(text[i:])
            break
        out.append(text[i:m.start()])
        j = m.end()
        depth = 1
        items, cur = [], ""
        while depth > 0:
            c = text[j]
            if c == "{":
                depth += 1
            elif c == "}":
                depth -= 1
                if depth == 0:
                    break
            if c == "," and depth == 1:
                items.append(cur)
                cur = ""
            else:
                cur += c
            j += 1
        items.append(cur)
        k = text.index(";", j)
        vis = m.group(1) or ""
        for it in items:
            it = " ".join(it.split())
            if it:
                out.append(f"{vis}use std::{it};\n")
        i = k + 1
    return "".join(out)


def plain_static_names(text):
    t = re.sub(r"(?s)thread_local!\s*\{.*?\n\}", "", text)
    names = []
    for m in re.finditer(r"(?m)^\s*(?:pub(?:\([a-z]+\))?\s+)?static\s+(?:mut\s+)?([A-Za-z_][A-Za-z0-9_]*)\s*:\s*([^=;]+)", t):
        if not re.match(r"(crate::vsync::|std::sync::)?LazyLock\s*<", m.group(2).strip()):
            names.append(m.group(1))
    return names


def has_plain_static(text):
    """a `static` item (outside thread_local!) that is not a LazyLock: state shared between threads whose
    construction or use the library synchronises by hand (LazyLock keeps a value under construction
    unreachable, so its initialiser needs no extra scheduling points)"""
    t = re.sub(r"(?s)thread_local!\s*\{.*?\n\}", "", text)
    for m in re.finditer(r"(?m)^\s*(?:pub(?:\([a-z]+\))?\s+)?static\s+(?:mut\s+)?[A-Za-z_][A-Za-z0-9_]*\s*:\s*([^=;]+)", t):
        ty = m.group(1).strip()
        if not re.match(r"(crate::vsync::|std::sync::)?LazyLock\s*<", ty):
            return True
    return False


def loop_points(text):
    """Files that declare process-wide state (`static` items): a scheduling point before every loop that is
    a statement of a function body (not inside nested loops: one point per pass, not per element). Plain
    memory has no scheduling points of its own; multi-pass construction of shared tables is where a second
    thread can see or disturb a half-built state."""
    out, n = [], 0
    fn_indent = None
    for line in text.split("\n"):
        m = re.match(r"^(\s*)(pub(\([a-z]+\))?\s+)?(const\s+)?(unsafe\s+)?(extern\s+\"C\"\s+)?fn\s", line)
        ind = len(line) - len(line.lstrip(" "))
        if m and (fn_indent is None or ind <= fn_indent):
            fn_indent = len(m.group(1))
        elif fn_indent is not None and line.startswith(" " * fn_indent + "}") and ind == fn_indent:
            fn_indent = None
        elif fn_indent is not None and ind == fn_indent + 4 and re.match(r"^\s*('[a-z_]+:\s*)?(for|while|loop)\b", line):
            out.append(" " * ind + "crate::vpoint::point();")
            n += 1
        out.append(line)
    return "\n".join(out), n


n_sync = 0
n_loops = 0
src = os.path.join(repo, "src")
# names of hand-synchronised statics anywhere in the library: files that mention one get loop-entry points too
PLAIN_STATICS = []
for root, dirs, files in os.walk(src):
    for f in files:
        if f.endswith(".rs") and f != "verif_hooks.rs":
            PLAIN_STATICS += plain_static_names(open(os.path.join(root, f)).read())
for root, dirs, files in os.walk(src):
    rel = os.path.relpath(root, src)
    for f in files:
        if not f.endswith((".rs", ".md")):
            continue
        s = open(os.path.join(root, f)).read()
        if f.endswith(".rs"):
            s = split_std_groups(s)
            n_sync += s.count("std::sync::") + len(re.findall(r"std::thread\b", s))
            s = re.sub(r"use\s+std::thread\s*;", "use crate::vthread as thread;", s)
            s = re.sub(r"use\s+std::sync\s*;", "use crate::vsync as sync;", s)
            s = s.replace("std::sync::", "crate::vsync::")
            s = re.sub(r"\bstd::sync\b(?!::)", "crate::vsync", s)
            # std::thread_local! -> shuttle's (per-shuttle-thread storage); std::thread -> shuttle threads
            s = s.replace("std::thread_local!", "shuttle::thread_local!")
            s = re.sub(r"(?<![\w:])thread_local!", "shuttle::thread_local!", s)
            s = s.replace("shuttle::shuttle::thread_local!", "shuttle::thread_local!")
            s = re.sub(r"std::thread\b", "crate::vthread", s)
            # `use std::{sync::X, ...}` style imports would escape the substitution: refuse loudly
            if re.search(r"use\s+std::\{[^}]*\b(sync|thread)\b", s):
                sys.exit(f"port_conc: grouped std import of sync/thread in {f}: extend the port script")
            if f != "verif_hooks.rs" and (has_plain_static(s) or any(re.search(r"\b" + re.escape(n) + r"\b", s) for n in PLAIN_STATICS)):
                s, n_loop = loop_points(s)
                n_loops += n_loop
            if f == "tables.rs":
                # mark table initialisers (harness-side log of who initialised what, in which order)
                s = re.sub(r"(fn (initialize_\w+)\([^)]*\)[^{]*\{\n)", lambda m: m.group(1) + f'    crate::vtrace::init_event("{m.group(2)}");\n', s)
        if rel == "." and f == "lib.rs":
            s = s.replace('#![doc = include_str!(concat!(env!("OUT_DIR"), "/README-rustdocified.md"))]', "")
            s = s.replace("#![deny(missing_docs)]", "#![allow(warnings)]\n#![feature(coerce_unsized, unsize)]")
            s += SHIM
        put(os.path.join(out, "src", rel, f), s)

put(os.path.join(out, "Cargo.toml"), '''[package]
name = "conc"
version = "0.0.0"
edition = "2021"

[lib]
name = "rs_ported"
path = "src/lib.rs"

[[bin]]
name = "conc"
path = "main.rs"

[features]
verif-hooks = []

[dependencies]
shuttle = "0.9.3"
fixedbitset = "0.4.0"

[profile.release]
opt-level = 3
debug = false
panic = "unwind"
''')
put(os.path.join(out, "main.rs"), open(os.path.join(template, "main.rs")).read())
lock = os.path.join(template, "Cargo.lock")
if True:
    put(os.path.join(out, "Cargo.lock"), open(lock if os.path.exists(lock) else os.path.join(os.path.dirname(template), "Cargo.lock")).read())
put(os.path.join(out, ".cargo", "config.toml"), "[net]\noffline = true\n")
print(f"port_conc: ok ({n_sync} std::sync/std::thread references re-targeted, {n_loops} loop-entry scheduling points in files with statics)")
