#!/usr/bin/env python3
"""Applies a seeded change to /repo, runs checks against it, and undoes it straight afterwards.

usage: try_seed.py <patch.diff> [--tier quick|thorough] [--props C01,C05,...] [--out result.json] [--suite]
  --suite : also run the repository's own test suite on the changed tree (must still pass)
Never leaves /repo modified (try/finally); refuses to start if /repo is dirty.
"""
import json
import os
import subprocess
import sys
import time

VERIF = os.path.dirname(os.path.dirname(os.path.abspath(__file__)))
REPO = "/repo"
ALL = [f"C{i:02d}" for i in range(1, 18)]


def sh(cmd, **kw):
    return subprocess.run(cmd, shell=True, stdout=subprocess.PIPE, stderr=subprocess.STDOUT, text=True, **kw)


def main():
    a = sys.argv[1:]
    patch = os.path.abspath(a[0])
    tier = "quick"
    props = ALL
    out = None
    suite = False
    i = 1
    while i < len(a):
        if a[i] == "--tier":
            tier = a[i + 1]; i += 1
        elif a[i] == "--props":
            props = a[i + 1].split(","); i += 1
        elif a[i] == "--out":
            out = a[i + 1]; i += 1
        elif a[i] == "--suite":
            suite = True
        i += 1
    if sh(f"git -C {REPO} status --porcelain --untracked-files=no").stdout.strip():
        sys.exit("refusing: /repo has uncommitted changes")
    res = {"patch": patch, "tier": tier, "checks": {}}
    r = sh(f"git -C {REPO} apply {patch}")
    if r.returncode != 0:
        sys.exit(f"patch does not apply: {r.stdout}")
    try:
        if suite:
            t = sh(f"cd {REPO} && cargo nextest run --workspace --no-fail-fast --test-threads 8 --offline 2>&1 | tail -3")
            res["suite"] = t.stdout.strip().splitlines()[-1] if t.stdout.strip() else "?"
            print("suite:", res["suite"])
        for p in props:
            t0 = time.time()
            try:
                r = sh(f"cd {VERIF} && timeout -k 5 {1200 if tier == 'quick' else 4 * 3600} ./check {p} --tier {tier}")
            except Exception as ex:  # noqa
                r = subprocess.CompletedProcess([], 2, stdout=f"MACHINERY-ERROR: {ex}")
            if r.returncode == 124:
                r.stdout += "\nMACHINERY-ERROR: check timed out"
                r.returncode = 2
            lines = r.stdout.splitlines()
            viol = [l for l in lines if l.startswith("VIOLATION")]
            mach = [l for l in lines if l.startswith("MACHINERY-ERROR")]
            detail = ""
            for j, l in enumerate(lines):
                if l.startswith("VIOLATION"):
                    detail = " | ".join(x.strip() for x in lines[j + 1:j + 4])[:600]
                    break
            res["checks"][p] = {"exit": r.returncode, "violations": len(viol), "first": viol[0] if viol else "", "detail": detail, "machinery": mach[:2], "wall_s": round(time.time() - t0, 1)}
            print(f"{p}: exit={r.returncode} violations={len(viol)} {('MACH ' + mach[0][:150]) if mach else ''} {detail[:200]}")
    finally:
        sh(f"git -C {REPO} checkout -- .")
        sh(f"git -C {REPO} clean -fdq -- src tests")
        sh(f"rm -rf {VERIF}/replays/*")
    res["caught_by"] = [p for p, v in res["checks"].items() if v["exit"] == 1]
    print("caught by:", res["caught_by"])
    if out:
        json.dump(res, open(out, "w"), indent=1)
    dirty = sh(f"git -C {REPO} status --porcelain --untracked-files=no").stdout.strip()
    if dirty:
        sys.exit("ERROR: /repo still dirty: " + dirty)


if __name__ == "__main__":
    main()
