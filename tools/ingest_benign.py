#!/usr/bin/env python3
"""Files a behaviour-preserving change under /verif/benign/<id>/ after running every quick check on it.

usage: ingest_benign.py <id> <patch> [<notes.md>]
A check that exits 1 on such a change is a candidate FALSE ALARM (to be analysed by hand: either the
change does break a property after all, or the check is too strict and must be corrected)."""
import json
import os
import shutil
import subprocess
import sys

VERIF = os.path.dirname(os.path.dirname(os.path.abspath(__file__)))


def sh(cmd):
    return subprocess.run(cmd, shell=True, stdout=subprocess.PIPE, stderr=subprocess.STDOUT, text=True)


bid, patch = sys.argv[1], os.path.abspath(sys.argv[2])
notes = sys.argv[3] if len(sys.argv) > 3 else None
out = os.path.join(VERIF, "benign", bid)
os.makedirs(out, exist_ok=True)
shutil.copy(patch, os.path.join(out, "patch.diff"))
if notes and os.path.exists(notes):
    shutil.copy(notes, os.path.join(out, "agent_NOTES.md"))
res = os.path.join("/tmp", f"benign_{bid}.json")
r = sh(f"python3 {VERIF}/tools/try_seed.py {out}/patch.diff --tier quick --suite --out {res}")
print(r.stdout[-2500:])
d = json.load(open(res))
alarms = {p: v["detail"][:400] for p, v in d["checks"].items() if v["exit"] == 1}
mach = {p: (v["machinery"] or ["?"])[0][:300] for p, v in d["checks"].items() if v["exit"] == 2}
meta = {"id": bid, "suite": d.get("suite", ""), "alarms": alarms, "machinery": mach, "verdict": "", "notes": ""}
json.dump(meta, open(os.path.join(out, "meta.json"), "w"), indent=1)
print(f"BENIGN {bid}: alarms={sorted(alarms)} machinery={sorted(mach)}")
