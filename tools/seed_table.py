#!/usr/bin/env python3
"""Regenerates /verif/seeded/README.md from seeded/*/meta.json."""
import glob
import json
import os

VERIF = os.path.dirname(os.path.dirname(os.path.abspath(__file__)))
rows = []
for m in sorted(glob.glob(os.path.join(VERIF, "seeded", "*", "meta.json"))):
    d = json.load(open(m))
    rows.append(d)
out = ["# Seeded property-breaking changes", "",
       "Each directory holds `patch.diff` (the change to reed-solomon-simd), the demonstration that fails with it and",
       "passes without it, and `meta.json` (what it breaks, what it needs to manifest, what was run).",
       "None of these changes is ever committed to /repo; `tools/try_seed.py` applies one, runs checks, reverts.", "",
       "| id | breaks | what it needs to manifest | repo suite | caught by (quick) | caught by (thorough only) | notes |",
       "|----|--------|---------------------------|-----------|-------------------|--------------------------|-------|"]
for d in rows:
    out.append("| {} | {} | {} | {} | {} | {} | {} |".format(
        d.get("id"), d.get("property"), d.get("needs", "").replace("|", "/"), d.get("suite", ""),
        " ".join(d.get("caught_by_quick", [])) or "-", " ".join(d.get("caught_by_thorough_only", [])) or "-",
        d.get("notes", "").replace("|", "/")))
open(os.path.join(VERIF, "seeded", "README.md"), "w").write("\n".join(out) + "\n")
print(f"{len(rows)} seeded changes")
