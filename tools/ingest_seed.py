#!/usr/bin/env python3
"""Confirms a candidate seeded change independently and files it under /verif/seeded/<id>/.

usage: ingest_seed.py <property Cxx> <variant a|b> <src dir with a.patch/a_demo.rs/NOTES.md> [--needs "text"] [--thorough-props C01,C02]

Steps (all in a scratch worktree /tmp/seedcheck of /repo HEAD, never in /repo itself):
  1. patch applies; crate builds with and without --features verif-hooks
  2. the repository's suite passes with the change (109 tests)
  3. the demonstration fails with the change and passes without it
then, on /repo itself via try_seed.py (apply, run, revert): every quick check; thorough for the target
property (and any listed) if quick misses it. Writes patch.diff, demo.rs, meta.json.
"""
import json
import os
import shutil
import subprocess
import sys

VERIF = os.path.dirname(os.path.dirname(os.path.abspath(__file__)))
WT = os.environ.get("SEEDCHECK_WT", "/tmp/seedcheck")


def sh(cmd, **kw):
    return subprocess.run(cmd, shell=True, stdout=subprocess.PIPE, stderr=subprocess.STDOUT, text=True, **kw)


def main():
    prop, var, src = sys.argv[1], sys.argv[2], sys.argv[3]
    needs = ""
    suffix = ""
    thorough_props = [prop]
    phase, quick_props, no_thorough = "both", "", False
    a = sys.argv[4:]
    i = 0
    while i < len(a):
        if a[i] == "--needs":
            needs = a[i + 1]; i += 1
        elif a[i] == "--thorough-props":
            thorough_props = a[i + 1].split(","); i += 1
        elif a[i] == "--suffix":
            suffix = a[i + 1]; i += 1
        elif a[i] == "--phase":  # confirm | check | both
            phase = a[i + 1]; i += 1
        elif a[i] == "--quick-props":
            quick_props = a[i + 1]; i += 1
        elif a[i] == "--no-thorough":
            no_thorough = True
        i += 1
    sid = f"{prop}{var}{suffix}"
    patch = os.path.join(src, f"{var}.patch")
    demo = os.path.join(src, f"{var}_demo.rs")
    assert os.path.exists(patch) and os.path.exists(demo), "missing patch or demo"
    if not os.path.exists(WT):
        r = sh(f"git -C /repo worktree add -q {WT} HEAD")
        assert r.returncode == 0, r.stdout
        if os.path.exists("/tmp/seed/base/target"):
            sh(f"cp -r /tmp/seed/base/target {WT}/target")
    sh(f"git -C {WT} checkout -q --detach $(git -C /repo rev-parse HEAD) && git -C {WT} checkout -- . && rm -f {WT}/tests/seed_demo_*.rs")
    ran = []
    state = os.path.join("/tmp", f"ingest_{sid}.json")
    if phase == "check":
        st = json.load(open(state))
        ran, suite = st["ran"], st["suite"]
    else:
        ran, suite = confirm(sid, patch, demo)
        json.dump({"ran": ran, "suite": suite}, open(state, "w"))
        if phase == "confirm":
            print(f"CONFIRMED {sid}")
            return
    finish(sid, prop, src, patch, demo, needs, suite, ran, thorough_props, quick_props, no_thorough)


def confirm(sid, patch, demo):
    ran = []
    r = sh(f"git -C {WT} apply {patch}")
    if r.returncode != 0:
        sys.exit(f"REJECT {sid}: patch does not apply: {r.stdout}")
    r = sh(f"cd {WT} && cargo build --offline 2>&1 | tail -2 && cargo build --offline --features verif-hooks 2>&1 | tail -2")
    if "error" in r.stdout:
        sys.exit(f"REJECT {sid}: does not build: {r.stdout}")
    ran.append("cargo build --offline [--features verif-hooks]: ok")
    r = sh(f"cd {WT} && cargo nextest run --workspace --no-fail-fast --test-threads 8 --offline 2>&1 | tail -2")
    suite = r.stdout.strip().splitlines()[-1].strip() if r.stdout.strip() else "?"
    if "109 passed" not in suite:
        sys.exit(f"REJECT {sid}: repository suite does not pass with the change: {suite}")
    ran.append(f"repository suite with change: {suite}")
    tname = f"seed_demo_{sid.lower()}"
    shutil.copy(demo, f"{WT}/tests/{tname}.rs")
    feat = "--features verif-hooks" if "verif_hooks" in open(demo).read() else ""
    fails = 0
    for _ in range(3):
        r = sh(f"cd {WT} && cargo test --offline {feat} --test {tname} 2>&1 | tail -15")
        if "test result: FAILED" in r.stdout or "panicked" in r.stdout:
            fails += 1
    if fails == 0:
        sys.exit(f"REJECT {sid}: demonstration does not fail with the change:\n{r.stdout}")
    ran.append(f"demonstration with change: fails {fails}/3 runs")
    sh(f"git -C {WT} apply -R {patch}")
    oks = 0
    for _ in range(3):
        r = sh(f"cd {WT} && cargo test --offline {feat} --test {tname} 2>&1 | tail -8")
        if "test result: ok" in r.stdout and "FAILED" not in r.stdout:
            oks += 1
    if oks != 3:
        sys.exit(f"REJECT {sid}: demonstration does not pass on the unchanged code ({oks}/3):\n{r.stdout}")
    ran.append("demonstration without change: passes 3/3 runs")
    sh(f"rm -f {WT}/tests/{tname}.rs; git -C {WT} checkout -- .")
    return ran, suite


def finish(sid, prop, src, patch, demo, needs, suite, ran, thorough_props, quick_props, no_thorough):
    # run the checks on /repo
    outdir = os.path.join(VERIF, "seeded", sid)
    os.makedirs(outdir, exist_ok=True)
    shutil.copy(patch, os.path.join(outdir, "patch.diff"))
    shutil.copy(demo, os.path.join(outdir, "demo.rs"))
    resq = os.path.join("/tmp", f"try_{sid}_quick.json")
    r = sh(f"python3 {VERIF}/tools/try_seed.py {outdir}/patch.diff --tier quick {'--props ' + quick_props if quick_props else ''} --out {resq}")
    print(r.stdout[-3000:])
    q = json.load(open(resq))
    caught_q = q["caught_by"]
    mach = [p for p, v in q["checks"].items() if v["exit"] == 2]
    caught_t = []
    if not no_thorough and (prop not in caught_q or any(p not in caught_q for p in thorough_props)):
        todo = [p for p in thorough_props if p not in caught_q]
        if todo:
            rest = os.path.join("/tmp", f"try_{sid}_thorough.json")
            r = sh(f"python3 {VERIF}/tools/try_seed.py {outdir}/patch.diff --tier thorough --props {','.join(todo)} --out {rest}")
            print(r.stdout[-2000:])
            t = json.load(open(rest))
            caught_t = t["caught_by"]
            mach += [p for p, v in t["checks"].items() if v["exit"] == 2]
    notes_src = os.path.join(src, "NOTES.md")
    if os.path.exists(notes_src):
        shutil.copy(notes_src, os.path.join(outdir, "agent_NOTES.md"))
    meta = {
        "id": sid,
        "property": prop,
        "needs": needs,
        "suite": suite,
        "ran": ran + [f"tools/try_seed.py patch.diff --tier quick  -> caught by {caught_q}"] + ([f"tools/try_seed.py patch.diff --tier thorough --props {thorough_props} -> caught by {caught_t}"] if caught_t or prop not in caught_q else []),
        "quick_checks_run": sorted(q["checks"].keys()),
        "caught_by_quick": caught_q,
        "caught_by_thorough_only": caught_t,
        "machinery_errors_in": sorted(set(mach)),
        "first_report": {p: q["checks"][p]["detail"][:300] for p in caught_q[:3]},
        "notes": "",
    }
    json.dump(meta, open(os.path.join(outdir, "meta.json"), "w"), indent=1)
    print(f"INGESTED {sid}: quick={caught_q} thorough_only={caught_t} machinery={sorted(set(mach))}")


if __name__ == "__main__":
    main()
