//! conc — C16: independent codec objects used concurrently from any threads.
//! The repository source runs on shuttle's primitives (see tools/port_conc.py). Every schedule of
//! the 2-thread scenarios and every schedule with at most `bound` preemptions of the 3-thread
//! scenarios is executed by an own iterative-context-bounding depth-first scheduler; in every
//! complete execution every thread's results are compared with the sequential reference.
//! Every execution runs in a freshly forked process, so that ALL static state of the library (not
//! only shuttle's lazy statics) is pristine at the start of each execution, exactly like the
//! "fresh processes" of the property; the depth-first search state lives in the parent.
//!
//! usage: conc --tier quick|thorough      (writes evidence to $VERIF_EVIDENCE_OUT)
//!        conc --replay "<scenario> <bound> <c0,c1,...>"
use rs_ported::engine::{Avx2, DefaultEngine, Naive, NoSimd, Ssse3};
use rs_ported::rate::*;
use rs_ported::{ReedSolomonDecoder, ReedSolomonEncoder};
use shuttle::scheduler::{Schedule, Scheduler, Task, TaskId};
use std::collections::BTreeSet;
use std::panic::{catch_unwind, AssertUnwindSafe};
use std::sync::{Arc, Mutex};
use std::time::Instant;

// ---------------------------------------------------------------- scheduler

/// Iterative context bounding (Musuvathi & Qadeer): depth-first enumeration of every schedule with
/// at most `bound` preemptions. Candidates at a scheduling point are ordered canonically: the
/// running task first if still runnable, then the other runnable tasks in ascending id; choosing
/// anything but the first while the running task is runnable costs one preemption.
struct BoundedDfs {
    bound: usize,
    /// per scheduling point of the current execution: (choice, number of candidates)
    levels: Vec<(usize, usize)>,
    step: usize,
    preemptions: usize,
    /// non-default choices taken at points where the running task was NOT runnable (free switches)
    free_used: usize,
    free_bound: usize,
    started: bool,
    /// Some(choices): replay exactly this prefix, then always choice 0, one execution only
    fixed: Option<Vec<usize>>,
    shared: Arc<Mutex<Shared>>,
    max_executions: usize,
    deadline: Option<Instant>,
}

#[derive(Default)]
struct Shared {
    executions: usize,
    max_depth: usize,
    points: u64,
    current: Vec<(usize, usize)>,
    capped: bool,
}

impl BoundedDfs {
    fn advance(&mut self) -> bool {
        while let Some((c, n)) = self.levels.pop() {
            if c + 1 < n {
                self.levels.push((c + 1, n));
                return true;
            }
        }
        false
    }
}

impl Scheduler for BoundedDfs {
    fn new_execution(&mut self) -> Option<Schedule> {
        // exactly one execution per (forked) process: every execution starts from pristine statics
        if self.started {
            return None;
        }
        self.started = true;
        self.step = 0;
        self.preemptions = 0;
        self.free_used = 0;
        let mut s = self.shared.lock().unwrap();
        s.executions += 1;
        s.current.clear();
        Some(Schedule::new(0))
    }

    fn next_task(&mut self, runnable: &[&Task], current: Option<TaskId>, _is_yielding: bool) -> Option<TaskId> {
        let cur_runnable = current.map(|c| runnable.iter().any(|t| t.id() == c)).unwrap_or(false);
        let mut cands: Vec<TaskId> = Vec::with_capacity(runnable.len());
        if cur_runnable {
            cands.push(current.unwrap());
        }
        if !cur_runnable || self.preemptions < self.bound {
            let mut others: Vec<TaskId> = runnable.iter().map(|t| t.id()).filter(|id| !(cur_runnable && Some(*id) == current)).collect();
            others.sort();
            if !cur_runnable && self.free_used >= self.free_bound {
                others.truncate(1); // scenarios with many helper threads: only the lowest id continues
            }
            cands.extend(others);
        }
        let idx = if let Some(fx) = &self.fixed {
            let c = fx.get(self.step).copied().unwrap_or(0);
            assert!(c < cands.len(), "replay diverged: choice {c} out of range ({} candidates) at point {}", cands.len(), self.step);
            c
        } else if self.step < self.levels.len() {
            let (c, n) = self.levels[self.step];
            assert_eq!(n, cands.len(), "uncontrolled nondeterminism: prefix replays differently at point {}", self.step);
            c
        } else {
            self.levels.push((0, cands.len()));
            0
        };
        if cur_runnable && idx > 0 {
            self.preemptions += 1;
        }
        if !cur_runnable && idx > 0 {
            self.free_used += 1;
        }
        self.step += 1;
        let mut s = self.shared.lock().unwrap();
        s.points += 1;
        s.current.push((idx, cands.len()));
        s.max_depth = s.max_depth.max(self.step);
        Some(cands[idx])
    }

    fn next_u64(&mut self) -> u64 {
        panic!("the harness uses no scheduler-provided randomness")
    }
}

// ---------------------------------------------------------------- thread bodies

/// originals of thread `tid`: different bytes for every thread, so that data leaking from one
/// thread's round into another's cannot go unnoticed
fn orig(tid: usize) -> [[u8; 64]; 3] {
    let mut o = [[0u8; 64]; 3];
    for (i, sh) in o.iter_mut().enumerate() {
        for (j, b) in sh.iter_mut().enumerate() {
            *b = (0x11 + 0x61 * i + 0x29 * tid + 7 * j * (tid + 1)) as u8;
        }
    }
    o
}

/// one (3,2) round on explicit engines: returns recovery ++ restored
struct E2;
impl E2 {
    fn make2() -> Naive {
        Naive::new()
    }
}

fn round<E: rs_ported::engine::Engine>(e: E, e2: E, low: bool, tid: usize) -> Vec<Vec<u8>> {
    #[allow(non_snake_case)]
    let ORIG = orig(tid);
    // which original is given to the decoder depends on the thread: different erasure patterns
    let keep = tid % 3;
    let mut out = Vec::new();
    let rec: Vec<Vec<u8>> = if low {
        let mut enc = LowRateEncoder::new(3, 2, 64, e, None).unwrap();
        for o in &ORIG {
            enc.add_original_shard(o).unwrap();
        }
        let r = enc.encode().unwrap();
        r.recovery_iter().map(|s| s.to_vec()).collect()
    } else {
        let mut enc = HighRateEncoder::new(3, 2, 64, e, None).unwrap();
        for o in &ORIG {
            enc.add_original_shard(o).unwrap();
        }
        let r = enc.encode().unwrap();
        r.recovery_iter().map(|s| s.to_vec()).collect()
    };
    let restored: Vec<Vec<u8>> = if low {
        let mut dec = LowRateDecoder::new(3, 2, 64, e2, None).unwrap();
        dec.add_original_shard(keep, ORIG[keep]).unwrap();
        dec.add_recovery_shard(0, &rec[0]).unwrap();
        dec.add_recovery_shard(1, &rec[1]).unwrap();
        let r = dec.decode().unwrap();
        r.restored_original_iter().map(|(_, s)| s.to_vec()).collect()
    } else {
        let mut dec = HighRateDecoder::new(3, 2, 64, e2, None).unwrap();
        dec.add_original_shard(keep, ORIG[keep]).unwrap();
        dec.add_recovery_shard(0, &rec[0]).unwrap();
        dec.add_recovery_shard(1, &rec[1]).unwrap();
        let r = dec.decode().unwrap();
        r.restored_original_iter().map(|(_, s)| s.to_vec()).collect()
    };
    let want: Vec<Vec<u8>> = (0..3).filter(|i| *i != keep).map(|i| ORIG[i].to_vec()).collect();
    assert_eq!(restored, want, "decode restored wrong data");
    // a second decode with the erasure pattern every thread shares (keep = 0): threads overlap both on
    // equal and on different erasure patterns
    {
        let mut dec = HighRateDecoder::new(3, 2, 64, E2::make2(), None).unwrap();
        let rec2: Vec<Vec<u8>> = {
            let mut enc = HighRateEncoder::new(3, 2, 64, E2::make2(), None).unwrap();
            for o in &ORIG {
                enc.add_original_shard(o).unwrap();
            }
            let r = enc.encode().unwrap();
            r.recovery_iter().map(|s| s.to_vec()).collect()
        };
        dec.add_original_shard(0, ORIG[0]).unwrap();
        dec.add_recovery_shard(0, &rec2[0]).unwrap();
        dec.add_recovery_shard(1, &rec2[1]).unwrap();
        let r = dec.decode().unwrap();
        let got: Vec<Vec<u8>> = r.restored_original_iter().map(|(_, s)| s.to_vec()).collect();
        assert_eq!(got, vec![ORIG[1].to_vec(), ORIG[2].to_vec()], "second decode restored wrong data");
        out.extend(got);
    }
    out.extend(rec);
    out.extend(restored);
    out
}

fn body(name: &str, tid: usize) -> Vec<Vec<u8>> {
    #[allow(non_snake_case)]
    let ORIG = orig(tid);
    match name {
        "naive" => round(Naive::new(), Naive::new(), false, tid),
        "naive-low" => round(Naive::new(), Naive::new(), true, tid),
        "naive-enc" => {
            let mut enc = HighRateEncoder::new(3, 2, 64, Naive::new(), None).unwrap();
            for o in &ORIG {
                enc.add_original_shard(o).unwrap();
            }
            let r = enc.encode().unwrap();
            r.recovery_iter().map(|s| s.to_vec()).collect()
        }
        "nosimd-enc" | "avx2-enc" => {
            let rec: Vec<Vec<u8>> = if name == "nosimd-enc" {
                let mut enc = HighRateEncoder::new(3, 2, 64, NoSimd::new(), None).unwrap();
                for o in &ORIG {
                    enc.add_original_shard(o).unwrap();
                }
                let r = enc.encode().unwrap();
                r.recovery_iter().map(|s| s.to_vec()).collect()
            } else {
                let mut enc = LowRateEncoder::new(3, 2, 64, Avx2::new(), None).unwrap();
                for o in &ORIG {
                    enc.add_original_shard(o).unwrap();
                }
                let r = enc.encode().unwrap();
                r.recovery_iter().map(|s| s.to_vec()).collect()
            };
            rec
        }
        // two rounds on one decoder whose zeroed ranges span several MiB (size-gated code paths)
        "bigdec" => {
            let (k, r, bytes) = (1025usize, 1024usize, 4096usize);
            let mut out = Vec::new();
            let mut dec = HighRateDecoder::new(k, r, bytes, Avx2::new(), None).unwrap();
            for round in 0..2usize {
                let data: Vec<Vec<u8>> = (0..k).map(|i| (0..bytes).map(|j| (i * 31 + j * 7 + tid * 101 + round * 59 + (i * j) % 13) as u8).collect()).collect();
                let mut enc = HighRateEncoder::new(k, r, bytes, Avx2::new(), None).unwrap();
                for o in &data {
                    enc.add_original_shard(o).unwrap();
                }
                let rec: Vec<Vec<u8>> = enc.encode().unwrap().recovery_iter().map(|s| s.to_vec()).collect();
                // all recovery shards plus one original; 1024 originals to restore
                let keep = (round * 512 + tid * 17) % k;
                dec.add_original_shard(keep, &data[keep]).unwrap();
                for (j, s) in rec.iter().enumerate() {
                    dec.add_recovery_shard(j, s).unwrap();
                }
                let res = dec.decode().unwrap();
                let mut wrong = 0;
                for (i, s) in res.restored_original_iter() {
                    if s != data[i].as_slice() {
                        wrong += 1;
                    }
                }
                assert_eq!(wrong, 0, "round {round}: {wrong} of 1024 restored shards are wrong");
                out.push(vec![round as u8, (res.restored_original_iter().count() % 251) as u8]);
            }
            out
        }
        // first use of exactly one table (and what its initialiser pulls in)
        "force-skew" => {
            let t = &*rs_ported::engine::tables::SKEW;
            vec![t[..32].iter().flat_map(|x| x.to_le_bytes()).collect()]
        }
        "force-mul16" => {
            let t = &*rs_ported::engine::tables::MUL16;
            vec![t[3][1].iter().flat_map(|x| x.to_le_bytes()).collect()]
        }
        "force-mul128" => {
            let t = &*rs_ported::engine::tables::MUL128;
            vec![t[3].lo[1].to_le_bytes().to_vec()]
        }
        "force-logwalsh" => {
            let t = &*rs_ported::engine::tables::LOG_WALSH;
            vec![t[..32].iter().flat_map(|x| x.to_le_bytes()).collect()]
        }
        "nosimd" => round(NoSimd::new(), NoSimd::new(), false, tid),
        "ssse3" => round(Ssse3::new(), Ssse3::new(), true, tid),
        "avx2" => round(Avx2::new(), Avx2::new(), false, tid),
        "defeng" => round(DefaultEngine::new(), DefaultEngine::new(), false, tid),
        "rs" => {
            let mut enc = ReedSolomonEncoder::new(3, 2, 64).unwrap();
            for o in &ORIG {
                enc.add_original_shard(o).unwrap();
            }
            let rec: Vec<Vec<u8>> = enc.encode().unwrap().recovery_iter().map(|s| s.to_vec()).collect();
            let mut dec = ReedSolomonDecoder::new(3, 2, 64).unwrap();
            dec.add_original_shard(0, ORIG[0]).unwrap();
            dec.add_recovery_shard(1, &rec[1]).unwrap();
            dec.add_recovery_shard(0, &rec[0]).unwrap();
            let restored: Vec<Vec<u8>> = dec.decode().unwrap().restored_original_iter().map(|(_, s)| s.to_vec()).collect();
            assert_eq!(restored, vec![ORIG[1].to_vec(), ORIG[2].to_vec()]);
            let mut out = rec;
            out.extend(restored);
            out
        }
        // a thread that keeps its codecs in its own lazily filled thread-local slot and exits while owning them:
        // the slot is registered before the library runs (so any per-thread state of the library is registered
        // later and, on a real thread, destroyed earlier), the codecs are dropped by the slot's destructor
        // (the controlled scheduler destroys thread-locals in order of initialisation, real threads in reverse
        // order: "tls-owner" touches its slot before the library runs, "tls-owner-late" only afterwards, so that
        // both relative orders of the slot and any per-thread state of the library are explored)
        "tls-owner" | "tls-owner-late" => {
            shuttle::thread_local! {
                static SLOT: std::cell::RefCell<Vec<Box<dyn std::any::Any>>> = std::cell::RefCell::new(Vec::new());
            }
            if name == "tls-owner" {
                SLOT.with(|s| assert!(s.borrow().is_empty()));
            }
            let mut enc = ReedSolomonEncoder::new(3, 2, 64).unwrap();
            for o in &ORIG {
                enc.add_original_shard(o).unwrap();
            }
            let rec: Vec<Vec<u8>> = enc.encode().unwrap().recovery_iter().map(|s| s.to_vec()).collect();
            let mut dec = ReedSolomonDecoder::new(3, 2, 64).unwrap();
            dec.add_original_shard(0, ORIG[0]).unwrap();
            dec.add_recovery_shard(1, &rec[1]).unwrap();
            dec.add_recovery_shard(0, &rec[0]).unwrap();
            let restored: Vec<Vec<u8>> = dec.decode().unwrap().restored_original_iter().map(|(_, s)| s.to_vec()).collect();
            assert_eq!(restored, vec![ORIG[1].to_vec(), ORIG[2].to_vec()]);
            // a second pair in the middle of a round
            let mut enc2 = ReedSolomonEncoder::new(3, 2, 64).unwrap();
            enc2.add_original_shard(ORIG[0]).unwrap();
            SLOT.with(|s| {
                let mut v = s.borrow_mut();
                v.push(Box::new(enc));
                v.push(Box::new(dec));
                v.push(Box::new(enc2));
            });
            let mut out = rec;
            out.extend(restored);
            out
        }
        "oneshot" => {
            let rec = rs_ported::encode(3, 2, ORIG).unwrap();
            let rest = rs_ported::decode(3, 2, [(2usize, ORIG[2])], [(0usize, &rec[0]), (1, &rec[1])]).unwrap();
            assert_eq!(rest[&0], ORIG[0].to_vec());
            assert_eq!(rest[&1], ORIG[1].to_vec());
            let mut out = rec.clone();
            out.push(rest[&0].clone());
            out.push(rest[&1].clone());
            out
        }
        other => panic!("unknown body {other}"),
    }
}

/// hand-over: an encoder is moved to another thread after two adds, a decoder between the adds and
/// decode(); returns the receiving side's results
fn handover(engine: &'static str, tid: usize) -> Vec<Vec<u8>> {
    #[allow(non_snake_case)]
    let ORIG = orig(tid);
    use shuttle::sync::mpsc::channel;
    let (tx_e, rx_e) = channel::<ReedSolomonEncoder>();
    let (tx_d, rx_d) = channel::<(ReedSolomonDecoder, Vec<Vec<u8>>)>();
    let (tx_rec, rx_rec) = channel::<Vec<Vec<u8>>>();
    let _ = engine;
    let producer = shuttle::thread::spawn(move || {
        let mut enc = ReedSolomonEncoder::new(3, 2, 64).unwrap();
        enc.add_original_shard(ORIG[0]).unwrap();
        enc.add_original_shard(ORIG[1]).unwrap();
        tx_e.send(enc).unwrap();
        // meanwhile start a decoder for the shards the other side will produce
        let rec = rx_rec.recv().unwrap();
        let mut dec = ReedSolomonDecoder::new(3, 2, 64).unwrap();
        dec.add_recovery_shard(1, &rec[1]).unwrap();
        dec.add_original_shard(2, ORIG[2]).unwrap();
        dec.add_recovery_shard(0, &rec[0]).unwrap();
        tx_d.send((dec, rec)).unwrap();
    });
    let consumer = shuttle::thread::spawn(move || {
        let mut enc = rx_e.recv().unwrap();
        enc.add_original_shard(ORIG[2]).unwrap();
        let rec: Vec<Vec<u8>> = enc.encode().unwrap().recovery_iter().map(|s| s.to_vec()).collect();
        tx_rec.send(rec).unwrap();
        let (mut dec, rec) = rx_d.recv().unwrap();
        let restored: Vec<Vec<u8>> = dec.decode().unwrap().restored_original_iter().map(|(_, s)| s.to_vec()).collect();
        assert_eq!(restored, vec![ORIG[0].to_vec(), ORIG[1].to_vec()], "hand-over decode restored wrong data");
        let mut out = rec;
        out.extend(restored);
        out
    });
    producer.join().unwrap();
    consumer.join().unwrap()
}

// ---------------------------------------------------------------- scenarios

#[derive(Clone)]
struct Scenario {
    name: &'static str,
    bodies: Vec<&'static str>, // "handover" is special
}

fn scenarios(thorough: bool) -> Vec<(Scenario, Vec<usize>, usize)> {
    // (scenario, preemption bounds to iterate (usize::MAX = all schedules), execution cap)
    let all = usize::MAX;
    let s = |name: &'static str, bodies: &[&'static str]| Scenario { name, bodies: bodies.to_vec() };
    let mut v = vec![
        (s("naive||naive", &["naive", "naive"]), vec![0, 1, 2, all], 400_000),
        (s("naive||naive-low", &["naive", "naive-low"]), vec![0, 1, 2, all], 400_000),
        (s("naive-enc||oneshot", &["naive-enc", "oneshot"]), vec![0, 1, 2], 400_000),
        // first use of the NoSimd table family racing with first use of the SIMD table family
        (s("nosimd-enc||avx2-enc", &["nosimd-enc", "avx2-enc"]), if thorough { vec![0, 1, 2, 3, all] } else { vec![0, 1, 2] }, 400_000),
        // two threads whose first use reaches the *same* big table (publication of a table under construction)
        (s("nosimd-enc||nosimd-enc", &["nosimd-enc", "nosimd-enc"]), if thorough { vec![0, 1, 2, 3] } else { vec![0, 1, 2] }, 400_000),
        (s("avx2-enc||avx2-enc", &["avx2-enc", "avx2-enc"]), if thorough { vec![0, 1, 2, 3] } else { vec![0, 1, 2] }, 400_000),
        // three threads whose first use reaches three different tables (Skew/Exp-Log, Mul16, Mul128)
        (s("naive-enc||nosimd-enc||avx2-enc", &["naive-enc", "nosimd-enc", "avx2-enc"]), if thorough { vec![0, 1, 2] } else { vec![0, 1] }, 400_000),
        // bare first use of three / four different tables at once
        (s("skew||logwalsh||mul16", &["force-skew", "force-logwalsh", "force-mul16"]), if thorough { vec![0, 1, 2, 3] } else { vec![0, 1, 2] }, 400_000),
        (s("skew||mul16||mul128", &["force-skew", "force-mul16", "force-mul128"]), if thorough { vec![0, 1, 2, 3] } else { vec![0, 1] }, 400_000),

        // multi-MiB working spaces (size-gated code paths; with the harness-decided available_parallelism
        // of 2, budgets and pools derived from it are exhausted by two threads)
        (s("bigdec||bigdec", &["bigdec", "bigdec"]), if thorough { vec![0, 1, 2] } else { vec![0, 1] }, 400_000),
        (s("handover", &["handover"]), if thorough { vec![0, 1, 2, 3, all] } else { vec![0, 1, 2, 3] }, 400_000),
        // threads that exit while their own thread-local slot owns codecs (also one in the middle of a round)
        (s("tls-owner||tls-owner-late", &["tls-owner", "tls-owner-late"]), if thorough { vec![0, 1, 2] } else { vec![0, 1] }, 400_000),
    ];
    if thorough {
        v.extend(vec![
            (s("skew||mul16||mul128||logwalsh", &["force-skew", "force-mul16", "force-mul128", "force-logwalsh"]), vec![0, 1, 2], 400_000),
            (s("naive||nosimd", &["naive", "nosimd"]), vec![0, 1, 2, all], 400_000),
            (s("nosimd||avx2", &["nosimd", "avx2"]), vec![0, 1, 2, 3], 400_000),
            (s("ssse3||avx2", &["ssse3", "avx2"]), vec![0, 1, 2, 3], 400_000),
            (s("rs||rs", &["rs", "rs"]), vec![0, 1, 2, 3], 400_000),
            (s("rs||oneshot", &["rs", "oneshot"]), vec![0, 1, 2, 3], 400_000),
            (s("defeng||naive-low", &["defeng", "naive-low"]), vec![0, 1, 2, 3], 400_000),
            (s("naive||nosimd||avx2", &["naive", "nosimd", "avx2"]), vec![0, 1, 2], 400_000),
            (s("naive||naive-low||naive-enc", &["naive", "naive-low", "naive-enc"]), vec![0, 1, 2, 3], 400_000),
            (s("rs||oneshot||nosimd", &["rs", "oneshot", "nosimd"]), vec![0, 1, 2], 400_000),
            (s("handover||naive", &["handover", "naive"]), vec![0, 1, 2], 400_000),
        ]);
    } else {
        v.push((s("naive||naive-low||naive-enc", &["naive", "naive-low", "naive-enc"]), vec![0, 1, 2], 400_000));
    }
    v
}

fn scenario_by_name(name: &str) -> Scenario {
    for t in [true, false] {
        for (s, _, _) in scenarios(t) {
            if s.name == name {
                return s;
            }
        }
    }
    panic!("unknown scenario {name}")
}

struct Outcome {
    executions: usize,
    points: u64,
    max_depth: usize,
    capped: bool,
    signatures: BTreeSet<String>,
    failure: Option<(Vec<usize>, String)>,
    machinery: Option<String>,
}

static PANIC_MSG: Mutex<String> = Mutex::new(String::new());

extern "C" {
    fn fork() -> i32;
    fn pipe(fds: *mut i32) -> i32;
    fn waitpid(pid: i32, status: *mut i32, options: i32) -> i32;
    fn alarm(seconds: u32) -> u32;
    fn close(fd: i32) -> i32;
    #[link_name = "_exit"]
    fn libc_exit(code: i32) -> !;
}

const EXEC_TIMEOUT_S: u32 = 60;

/// what one execution (in its own process) reports
struct Exec {
    points: Vec<(usize, usize)>,
    signature: String,
    failure: Option<String>,
    outputs: Vec<Vec<Vec<u8>>>,
}

fn hexs(b: &[u8]) -> String {
    b.iter().map(|x| format!("{x:02x}")).collect()
}
fn unhex(s: &str) -> Vec<u8> {
    (0..s.len() / 2).map(|i| u8::from_str_radix(&s[2 * i..2 * i + 2], 16).unwrap()).collect()
}

/// Runs ONE execution of the scenario (or of a single body of it, for the sequential reference) in a
/// forked child under the scheduler, following `prefix` and then always the first candidate.
fn run_one(sc: &Scenario, bound: usize, prefix: &[usize], expected: Option<&Vec<Vec<Vec<u8>>>>, single: Option<usize>) -> Result<Exec, String> {
    use std::io::{Read, Write};
    use std::os::unix::io::FromRawFd;
    let mut fds = [0i32; 2];
    if unsafe { pipe(fds.as_mut_ptr()) } != 0 {
        return Err("pipe() failed".into());
    }
    let pid = unsafe { fork() };
    if pid < 0 {
        return Err("fork() failed".into());
    }
    if pid == 0 {
        // ---------------- child: one execution, then _exit
        unsafe {
            close(fds[0]);
            alarm(EXEC_TIMEOUT_S);
        }
        let mut w = unsafe { std::fs::File::from_raw_fd(fds[1]) };
        let shared = Arc::new(Mutex::new(Shared::default()));
        let sched = BoundedDfs { bound, levels: vec![], step: 0, preemptions: 0, free_used: 0, free_bound: if sc.name.starts_with("bigdec") { 1 } else { usize::MAX }, started: false, fixed: Some(prefix.to_vec()), shared: shared.clone(), max_executions: 1, deadline: None };
        let mut cfg = shuttle::Config::new();
        cfg.stack_size = 8 << 20; // decode keeps a 128 KiB array on the stack
        let runner = shuttle::Runner::new(sched, cfg);
        let bodies: Vec<(usize, &'static str)> = match single {
            Some(i) => vec![(i, sc.bodies[i])],
            None => sc.bodies.iter().copied().enumerate().collect(),
        };
        let outs: Arc<Mutex<Vec<Vec<Vec<u8>>>>> = Arc::new(Mutex::new(Vec::new()));
        let sig: Arc<Mutex<String>> = Arc::new(Mutex::new(String::new()));
        let (outs2, sig2) = (outs.clone(), sig.clone());
        let expected2: Option<Vec<Vec<Vec<u8>>>> = expected.cloned();
        let res = catch_unwind(AssertUnwindSafe(|| {
            runner.run(move || {
                let _ = rs_ported::vtrace::take();
                rs_ported::vpoint::enable(true);
                let mut hs = Vec::new();
                for (ti, b) in bodies.iter().copied() {
                    hs.push(shuttle::thread::spawn(move || if b == "handover" { handover("default", ti) } else { body(b, ti) }));
                }
                let o: Vec<Vec<Vec<u8>>> = hs.into_iter().map(|h| h.join().expect("thread panicked")).collect();
                if let Some(exp) = &expected2 {
                    for (i, x) in o.iter().enumerate() {
                        assert!(x == &exp[i], "thread {i} ({}) produced results different from sequential use", bodies[i].1);
                    }
                }
                let ev = rs_ported::vtrace::take();
                let s: Vec<String> = ev.iter().map(|(n, t)| format!("{}@{t}", n.trim_start_matches("initialize_"))).collect();
                *sig2.lock().unwrap() = s.join(",");
                *outs2.lock().unwrap() = o;
                rs_ported::vpoint::enable(false);
            })
        }));
        let failure = match res {
            Ok(_) => None,
            Err(e) => Some(if let Some(m) = e.downcast_ref::<String>() {
                m.clone()
            } else if let Some(m) = e.downcast_ref::<&str>() {
                m.to_string()
            } else {
                PANIC_MSG.lock().unwrap_or_else(|e| e.into_inner()).clone()
            }),
        };
        let pts = shared.lock().unwrap_or_else(|e| e.into_inner()).current.clone();
        let mut msg = String::new();
        msg.push_str(&format!("P {}\n", pts.iter().map(|(c, n)| format!("{c}:{n}")).collect::<Vec<_>>().join(",")));
        msg.push_str(&format!("S {}\n", sig.lock().unwrap_or_else(|e| e.into_inner())));
        if let Some(f) = failure {
            msg.push_str(&format!("F {}\n", f.replace(['\n', '\r'], " ")));
        }
        if expected.is_none() {
            let o = outs.lock().unwrap_or_else(|e| e.into_inner());
            msg.push_str(&format!("O {}\n", o.iter().map(|t| t.iter().map(|s| hexs(s)).collect::<Vec<_>>().join(";")).collect::<Vec<_>>().join("|")));
        }
        msg.push_str("END\n");
        let _ = w.write_all(msg.as_bytes());
        let _ = w.flush();
        unsafe { libc_exit(0) };
    }
    // ---------------- parent
    unsafe { close(fds[1]) };
    let mut r = unsafe { std::fs::File::from_raw_fd(fds[0]) };
    let mut txt = String::new();
    let _ = r.read_to_string(&mut txt);
    let mut status = 0i32;
    unsafe { waitpid(pid, &mut status, 0) };
    if !txt.contains("END\n") {
        let sig = status & 0x7f;
        return Err(if sig == 14 { format!("execution did not terminate within {EXEC_TIMEOUT_S} s (hang or livelock not seen by the scheduler)") } else { format!("execution process died (wait status {status:#x}) without a result") });
    }
    let mut ex = Exec { points: vec![], signature: String::new(), failure: None, outputs: vec![] };
    for line in txt.lines() {
        let (tag, rest) = line.split_at(line.len().min(2));
        match tag {
            "P " => ex.points = rest.split(',').filter(|x| !x.is_empty()).map(|x| { let (c, n) = x.split_once(':').unwrap(); (c.parse().unwrap(), n.parse().unwrap()) }).collect(),
            "S " => ex.signature = rest.to_string(),
            "F " => ex.failure = Some(rest.to_string()),
            "O " => ex.outputs = rest.split('|').map(|t| t.split(';').filter(|x| !x.is_empty()).map(unhex).collect()).collect(),
            _ => {}
        }
    }
    Ok(ex)
}

/// depth-first search over schedules; the search state (`levels`) lives here, every execution in a child
fn explore(sc: &Scenario, bound: usize, fixed: Option<Vec<usize>>, cap: usize, expected: &Arc<Vec<Vec<Vec<u8>>>>, deadline: Option<Instant>) -> Outcome {
    let mut o = Outcome { executions: 0, points: 0, max_depth: 0, capped: false, signatures: BTreeSet::new(), failure: None, machinery: None };
    let mut levels: Vec<(usize, usize)> = Vec::new();
    let one_shot = fixed.is_some();
    loop {
        let prefix: Vec<usize> = match &fixed {
            Some(f) => f.clone(),
            None => levels.iter().map(|l| l.0).collect(),
        };
        match run_one(sc, bound, &prefix, Some(expected), None) {
            Err(died) => {
                o.executions += 1;
                o.failure = Some((prefix, died));
                return o;
            }
            Ok(ex) => {
                o.executions += 1;
                o.points += ex.points.len() as u64;
                o.max_depth = o.max_depth.max(ex.points.len());
                if !one_shot {
                    for (i, l) in levels.iter().enumerate() {
                        if ex.points.get(i) != Some(l) && ex.failure.is_none() {
                            o.machinery = Some(format!("uncontrolled nondeterminism: scheduling point {i} of a replayed prefix offered {:?} instead of {:?}", ex.points.get(i), l));
                            return o;
                        }
                    }
                }
                if let Some(f) = ex.failure {
                    o.failure = Some((ex.points.iter().map(|p| p.0).collect(), f));
                    return o;
                }
                o.signatures.insert(ex.signature);
                if one_shot {
                    return o;
                }
                levels = ex.points;
                // advance to the next schedule in depth-first order
                loop {
                    match levels.pop() {
                        Some((c, n)) if c + 1 < n => {
                            levels.push((c + 1, n));
                            break;
                        }
                        Some(_) => continue,
                        None => return o, // space exhausted
                    }
                }
                if o.executions >= cap || deadline.map(|d| Instant::now() > d).unwrap_or(false) {
                    o.capped = true;
                    return o;
                }
            }
        }
    }
}

/// sequential reference: each body alone, one thread, under the same runtime, each in its own process
fn sequential(sc: &Scenario) -> Result<Vec<Vec<Vec<u8>>>, String> {
    let mut out = Vec::new();
    for i in 0..sc.bodies.len() {
        let ex = run_one(sc, 0, &[], None, Some(i))?;
        if let Some(f) = ex.failure {
            return Err(format!("sequential reference run of body {} failed: {f}", sc.bodies[i]));
        }
        out.push(ex.outputs.into_iter().next().unwrap_or_default());
    }
    Ok(out)
}

fn jstr(s: &str) -> String {
    let mut o = String::from("\"");
    for c in s.chars() {
        match c {
            '"' => o.push_str("\\\""),
            '\\' => o.push_str("\\\\"),
            '\n' => o.push_str("\\n"),
            c if (c as u32) < 0x20 => o.push(' '),
            c => o.push(c),
        }
    }
    o.push('"');
    o
}

fn main() {
    let args: Vec<String> = std::env::args().collect();
    std::env::set_var("SHUTTLE_SILENCE_WARNINGS", "1");
    std::panic::set_hook(Box::new(|info| {
        *PANIC_MSG.lock().unwrap_or_else(|e| e.into_inner()) = format!("{info}");
    }));
    let verif_dir = std::env::var("VERIF_DIR").unwrap_or_else(|_| "/verif".into());
    if args.len() >= 3 && args[1] == "--replay" {
        // "<scenario> <bound> <choices>"
        let p: Vec<&str> = args[2].split_whitespace().collect();
        let sc = scenario_by_name(p[0]);
        let bound: usize = if p[1] == "all" { usize::MAX } else { p[1].parse().unwrap() };
        let choices: Vec<usize> = if p.len() > 2 && p[2] != "-" { p[2].split(',').map(|x| x.parse().unwrap()).collect() } else { vec![] };
        let expected = Arc::new(sequential(&sc).unwrap_or_else(|e| { println!("MACHINERY-ERROR: {e}"); std::process::exit(2) }));
        let a = explore(&sc, bound, Some(choices.clone()), 1, &expected, None);
        let b = explore(&sc, bound, Some(choices), 1, &expected, None);
        let fa = a.failure.as_ref().map(|f| f.1.clone());
        let fb = b.failure.as_ref().map(|f| f.1.clone());
        if fa.is_some() != fb.is_some() || a.signatures != b.signatures {
            println!("MACHINERY-ERROR: replay of the same schedule is not deterministic: {fa:?} vs {fb:?}");
            std::process::exit(2);
        }
        if fa.as_ref().map(|m| m.contains("replay diverged")).unwrap_or(false) {
            println!("MACHINERY-ERROR: the recorded schedule does not apply to this tree (different scheduling points): {}", fa.unwrap());
            std::process::exit(2);
        }
        match fa {
            None => {
                println!("REPLAY property=C16 result=held case={}", args[2]);
                std::process::exit(0);
            }
            Some(m) => {
                println!("REPLAY property=C16 result=violation case={}\n  {m}", args[2]);
                std::process::exit(1);
            }
        }
    }
    if args.len() >= 3 && args[1] == "--diag-random" {
        // DIAGNOSTIC ONLY (sampling, never evidence): random schedules of one scenario in this process
        let sc = scenario_by_name(&args[2]);
        let n: usize = args.get(3).and_then(|x| x.parse().ok()).unwrap_or(2000);
        let bodies = sc.bodies.clone();
        let mut cfg = shuttle::Config::new();
        cfg.stack_size = 8 << 20;
        let r = catch_unwind(AssertUnwindSafe(|| {
            shuttle::Runner::new(shuttle::scheduler::RandomScheduler::new(n), cfg).run(move || {
                let mut hs = Vec::new();
                for (ti, b) in bodies.iter().copied().enumerate() {
                    hs.push(shuttle::thread::spawn(move || if b == "handover" { handover("default", ti) } else { body(b, ti) }));
                }
                for h in hs {
                    h.join().expect("thread panicked");
                }
            })
        }));
        println!("diag-random {}: failure found = {}", sc.name, r.is_err());
        if let Err(e) = r {
            println!("  {}", e.downcast_ref::<String>().cloned().unwrap_or_default().chars().take(300).collect::<String>());
        }
        return;
    }
    if args.len() >= 3 && args[1] == "--child" {
        // one scenario, all its bounds, in an own process: a failure inside the runtime cannot
        // disturb other explorations. Prints LINE/ROW/SAMPLE/CAP/DONE/FAIL records.
        let thorough = args.len() > 3 && args[3] == "thorough";
        let (sc, bounds, cap) = scenarios(thorough).into_iter().find(|(s, _, _)| s.name == args[2]).expect("scenario");
        let budget_s: u64 = if thorough { 1500 } else { 40 };
        let t0 = Instant::now();
        let expected = match sequential(&sc) {
            Ok(e) => Arc::new(e),
            Err(e) => {
                // the library fails even when used from one thread: report it as this scenario's failure
                println!("FAIL\t{}-sequential\t{} 0 -\t{}", sc.name, sc.name, e.replace(['\n', '\t'], " "));
                println!("SIGS\t0");
                std::process::exit(0);
            }
        };
        let d1 = explore(&sc, 0, Some(vec![]), 1, &expected, None);
        if let Some((choices, msg)) = &d1.failure {
            let cs = if choices.is_empty() { "-".to_string() } else { choices.iter().map(|c| c.to_string()).collect::<Vec<_>>().join(",") };
            println!("FAIL\t{}-bound0\t{} 0 {cs}\t{}", sc.name, sc.name, msg.replace(['\n', '\t'], " "));
            println!("SIGS\t0");
            std::process::exit(0);
        }
        {
            let d2 = explore(&sc, 0, Some(vec![]), 1, &expected, None);
            if d1.signatures != d2.signatures || d1.points != d2.points || d2.failure.is_some() {
                println!("MACH\tscenario {}: the same schedule replayed twice gave different observations", sc.name);
                std::process::exit(2);
            }
        }
        let mut sc_sigs: BTreeSet<String> = BTreeSet::new();
        let mut sampled = false;
        for &bound in &bounds {
            let bname = if bound == usize::MAX { "all".to_string() } else { bound.to_string() };
            if t0.elapsed().as_secs() > budget_s {
                println!("CAP\ttime budget reached before scenario {} bound {bname}", sc.name);
                continue;
            }
            let o = explore(&sc, bound, None, cap, &expected, Some(t0 + std::time::Duration::from_secs(budget_s)));
            if let Some(m) = &o.machinery {
                println!("MACH\tscenario {} bound {bname}: {m}", sc.name);
                std::process::exit(2);
            }
            sc_sigs.extend(o.signatures.iter().cloned());
            println!("COUNT\t{}\t{}", o.executions, o.points);
            if o.capped {
                println!("CAP\tscenario {} bound {bname}: cap reached after {} schedules (execution cap {cap} / time budget {budget_s}s); lower bounds completed", sc.name, o.executions);
            } else if o.failure.is_none() {
                println!("DONE\t{}:{bname}", sc.name);
            }
            let nthreads = if sc.name.starts_with("handover") { sc.bodies.len() + 1 } else { sc.bodies.len() };
            println!("ROW\t{{\"scenario\":{},\"threads\":{},\"preemption_bound\":{},\"schedules\":{},\"scheduling_points\":{},\"max_depth\":{},\"distinct_init_orders\":{},\"complete\":{}}}", jstr(sc.name), nthreads, jstr(&bname), o.executions, o.points, o.max_depth, o.signatures.len(), !o.capped && o.failure.is_none());
            println!("LINE\tscenario={} bound={bname} schedules={} points={} max_depth={} init_orders={} capped={}", sc.name, o.executions, o.points, o.max_depth, o.signatures.len(), o.capped);
            if !sampled {
                if let Some(sig) = o.signatures.iter().nth(o.signatures.len() / 2) {
                    println!("SAMPLE\tscenario {} bound {bname}: one explored execution initialised the tables in the order [{sig}] (table@thread)", sc.name);
                    sampled = true;
                }
            }
            if let Some((choices, msg)) = o.failure {
                let cs = if choices.is_empty() { "-".to_string() } else { choices.iter().map(|c| c.to_string()).collect::<Vec<_>>().join(",") };
                println!("FAIL\t{}-bound{bname}\t{} {bname} {cs}\t{}", sc.name, sc.name, msg.replace(['\n', '\t'], " "));
                println!("SIGS\t{}", sc_sigs.len());
                use std::io::Write;
                let _ = std::io::stdout().flush();
                std::process::exit(0);
            }
        }
        println!("SIGS\t{}", sc_sigs.len());
        std::process::exit(0);
    }
    let mut tier = "quick".to_string();
    let mut i = 1;
    while i < args.len() {
        if args[i] == "--tier" {
            tier = args[i + 1].clone();
            i += 1;
        }
        i += 1;
    }
    let thorough = tier == "thorough";
    let seed: i128 = std::env::var("VERIF_SEED").ok().and_then(|s| s.parse().ok()).unwrap_or(1);
    let t0 = Instant::now();
    let mut total_exec = 0u64;
    let mut total_points = 0u64;
    let mut rows: Vec<String> = Vec::new();
    let mut samples: Vec<String> = Vec::new();
    let mut violations: Vec<(String, String, String)> = Vec::new(); // (key, case, message)
    let mut machinery: Vec<String> = Vec::new();
    let mut all_sigs = 0usize;
    let mut caps: Vec<String> = Vec::new();
    let mut completed_bounds: Vec<String> = Vec::new();
    let budget_s: u64 = if thorough { 1500 } else { 45 };
    let plan = scenarios(thorough);
    let nthreads: usize = std::env::var("VERIF_THREADS").ok().and_then(|s| s.parse().ok()).unwrap_or_else(|| std::thread::available_parallelism().map(|n| n.get()).unwrap_or(4));
    let next = std::sync::atomic::AtomicUsize::new(0);
    let outputs: Mutex<Vec<(usize, String, Option<i32>)>> = Mutex::new(Vec::new());
    let exe = std::env::current_exe().expect("exe");
    std::thread::scope(|scope| {
        for _ in 0..nthreads.min(plan.len()) {
            scope.spawn(|| loop {
                let i = next.fetch_add(1, std::sync::atomic::Ordering::SeqCst);
                if i >= plan.len() {
                    break;
                }
                let out = std::process::Command::new(&exe).args(["--child", plan[i].0.name, if thorough { "thorough" } else { "quick" }]).output().expect("spawn child");
                outputs.lock().unwrap().push((i, String::from_utf8_lossy(&out.stdout).to_string(), out.status.code()));
            });
        }
    });
    let _ = budget_s;
    let mut outputs = outputs.into_inner().unwrap();
    outputs.sort_by_key(|(i, _, _)| *i);
    for (i, txt, code) in outputs {
        let mut finished = false;
        for line in txt.lines() {
            let p: Vec<&str> = line.splitn(4, '\t').collect();
            match p[0] {
                "COUNT" => {
                    total_exec += p[1].parse::<u64>().unwrap_or(0);
                    total_points += p[2].parse::<u64>().unwrap_or(0);
                }
                "ROW" => rows.push(p[1].to_string()),
                "LINE" => println!("{}", p[1]),
                "SAMPLE" => {
                    if samples.len() < 5 {
                        samples.push(p[1].to_string());
                    }
                }
                "CAP" => caps.push(p[1].to_string()),
                "DONE" => completed_bounds.push(p[1].to_string()),
                "MACH" => machinery.push(p[1].to_string()),
                "FAIL" => {
                    violations.push((p[1].to_string(), p[2].to_string(), p[3].to_string()));
                }
                "SIGS" => {
                    all_sigs += p[1].parse::<usize>().unwrap_or(0);
                    finished = true;
                }
                _ => {}
            }
        }
        if !finished {
            machinery.push(format!("exploration process of scenario {} ended abnormally (exit {:?}) without a result", plan[i].0.name, code));
        }
    }
    // known findings
    let known = std::fs::read_to_string(format!("{verif_dir}/known_findings.json")).unwrap_or_default();
    let mut unlisted = 0;
    let _ = std::fs::create_dir_all(format!("{verif_dir}/replays"));
    for (key, case, msg) in &violations {
        if known.contains(&format!("\"key\": {}", jstr(key))) && known.contains("\"status\": \"open\"") {
            println!("KNOWN-FINDING: property=C16 {key}");
            continue;
        }
        unlisted += 1;
        let fname: String = key.chars().map(|c| if c.is_ascii_alphanumeric() || c == '-' { c } else { '_' }).collect();
        let path = format!("{verif_dir}/replays/C16-{fname}.json");
        let body = format!("{{\n \"property\": \"C16\",\n \"key\": {},\n \"case\": {},\n \"expected\": \"every thread's results equal sequential use; no deadlock, no panic\",\n \"observed\": {}\n}}\n", jstr(key), jstr(case), jstr(msg));
        std::fs::write(&path, body).expect("write replay");
        println!("VIOLATION property=C16 replay={path}");
        println!("  schedule: {case}\n  observed: {msg}");
    }
    if !machinery.is_empty() {
        for m in &machinery {
            println!("MACHINERY-ERROR: {m}");
        }
        std::process::exit(2);
    }
    let ev_path = std::env::var("VERIF_EVIDENCE_OUT").unwrap_or_else(|_| format!("{verif_dir}/evidence/C16.json"));
    if samples.is_empty() {
        samples.push("(no execution completed)".into());
    }
    let ev = format!(
        "{{\n \"property_id\": \"C16\",\n \"tier\": {},\n \"seed\": {},\n \"level\": \"model_checking\",\n \"coverage\": {{\n  \"states\": {},\n  \"transitions\": {},\n  \"traces_validated_against_impl\": {},\n  \"evaluations\": {},\n  \"distinct_nontrivial\": {},\n  \"rule\": \"one evaluation = one complete schedule of the real code (repository source re-targeted onto shuttle primitives) executed under the bounded-preemption DFS scheduler and compared, thread by thread, with sequential use; states = scheduling points visited, transitions = scheduling decisions; distinct_nontrivial = number of distinct orders (table@thread) in which the racing threads initialised the shared tables, summed over scenarios - more than one per scenario shows that first-use really raced\",\n  \"exhaustive\": {},\n  \"caps_hit\": [{}],\n  \"completed\": [{}],\n  \"per_scenario\": [\n   {}\n  ],\n  \"samples\": [{}]\n }},\n \"assumptions\": [\"scheduling points are the operations of shuttle's sync/thread/lazy primitives onto which every std::sync / std::thread use of the source is re-targeted; unsynchronised accesses have no scheduling point; the port's Arc/Weak and atomic wrappers add one before every reference-count operation and after every atomic write (publication before the guarded data is written), and - only in source files that declare a static which is not a LazyLock, i.e. hand-synchronised process-wide state; none on the pinned tree - one before every top-level loop of a function body (between the passes of a multi-pass construction)\", \"std::thread::available_parallelism is answered by the harness: 2 (a two-CPU machine), so that budgets derived from it are exhausted by two threads\", \"sequentially consistent atomics (the crate has none of its own); std's LazyLock implementation itself is trusted and modelled by shuttle's blocking Once\", \"2-thread scenarios: all schedules (bound 'all'); 3-thread scenarios: all schedules with at most the stated number of preemptions\"],\n \"wall_s\": {:.1},\n \"violations\": {}\n}}\n",
        jstr(&tier),
        seed,
        total_points.max(1),
        total_points.max(1),
        total_exec,
        total_exec.max(1),
        all_sigs,
        caps.is_empty(),
        caps.iter().map(|c| jstr(c)).collect::<Vec<_>>().join(", "),
        completed_bounds.iter().map(|c| jstr(c)).collect::<Vec<_>>().join(", "),
        rows.join(",\n   "),
        samples.iter().map(|c| jstr(c)).collect::<Vec<_>>().join(", "),
        t0.elapsed().as_secs_f64(),
        unlisted
    );
    if let Some(dir) = std::path::Path::new(&ev_path).parent() {
        let _ = std::fs::create_dir_all(dir);
    }
    std::fs::write(&ev_path, ev).expect("write evidence");
    println!("C16 tier={tier} schedules={total_exec} scheduling_points={total_points} distinct_init_orders={all_sigs} violations={unlisted} wall={:.1}s", t0.elapsed().as_secs_f64());
    std::process::exit(if unlisted == 0 { 0 } else { 1 });
}
