//! conc — C16: independent codec objects used concurrently from any threads.
//! The repository source runs on shuttle's primitives (see tools/port_conc.py). Every schedule of
//! the 2-thread scenarios and every schedule with at most `bound` preemptions of the 3-thread
//! scenarios is executed by an own iterative-context-bounding depth-first scheduler; in every
//! complete execution every thread's results are compared with the sequential reference.
//!
//! usage: conc --tier quick|thorough      (writes evidence to $VERIF_EVIDENCE_OUT)
//!        conc --replay "<scenario> <bound> <c0,c1,...>"
use rs_ported::engine::{Avx2, DefaultEngine, Naive, NoSimd, Ssse3};
use rs_ported::rate::*;
use rs_ported::{ReedSolomonDecoder, ReedSolomonEncoder};
use shuttle::scheduler::{Schedule, Scheduler, Task, TaskId};
use std::collections::BTreeSet;
use std::panic::{catch_unwind, AssertUnwindSafe};
use std::sync::{Arc, Mutex};
use std::time::Instant;

// ---------------------------------------------------------------- scheduler

/// Iterative context bounding (Musuvathi & Qadeer): depth-first enumeration of every schedule with
/// at most `bound` preemptions. Candidates at a scheduling point are ordered canonically: the
/// running task first if still runnable, then the other runnable tasks in ascending id; choosing
/// anything but the first while the running task is runnable costs one preemption.
struct BoundedDfs {
    bound: usize,
    /// per scheduling point of the current execution: (choice, number of candidates)
    levels: Vec<(usize, usize)>,
    step: usize,
    preemptions: usize,
    started: bool,
    /// Some(choices): replay exactly this prefix, then always choice 0, one execution only
    fixed: Option<Vec<usize>>,
    shared: Arc<Mutex<Shared>>,
    max_executions: usize,
    deadline: Option<Instant>,
}

#[derive(Default)]
struct Shared {
    executions: usize,
    max_depth: usize,
    points: u64,
    current: Vec<usize>,
    capped: bool,
}

impl BoundedDfs {
    fn advance(&mut self) -> bool {
        while let Some((c, n)) = self.levels.pop() {
            if c + 1 < n {
                self.levels.push((c + 1, n));
                return true;
            }
        }
        false
    }
}

impl Scheduler for BoundedDfs {
    fn new_execution(&mut self) -> Option<Schedule> {
        if self.started {
            if self.fixed.is_some() {
                return None;
            }
            if !self.advance() {
                return None;
            }
            if self.shared.lock().unwrap().executions >= self.max_executions || self.deadline.map(|d| Instant::now() > d).unwrap_or(false) {
                self.shared.lock().unwrap().capped = true;
                return None;
            }
        }
        self.started = true;
        self.step = 0;
        self.preemptions = 0;
        let mut s = self.shared.lock().unwrap();
        s.executions += 1;
        s.current.clear();
        Some(Schedule::new(0))
    }

    fn next_task(&mut self, runnable: &[&Task], current: Option<TaskId>, _is_yielding: bool) -> Option<TaskId> {
        let cur_runnable = current.map(|c| runnable.iter().any(|t| t.id() == c)).unwrap_or(false);
        let mut cands: Vec<TaskId> = Vec::with_capacity(runnable.len());
        if cur_runnable {
            cands.push(current.unwrap());
        }
        if !cur_runnable || self.preemptions < self.bound {
            let mut others: Vec<TaskId> = runnable.iter().map(|t| t.id()).filter(|id| !(cur_runnable && Some(*id) == current)).collect();
            others.sort();
            cands.extend(others);
        }
        let idx = if let Some(fx) = &self.fixed {
            let c = fx.get(self.step).copied().unwrap_or(0);
            assert!(c < cands.len(), "replay diverged: choice {c} out of range ({} candidates) at point {}", cands.len(), self.step);
            c
        } else if self.step < self.levels.len() {
            let (c, n) = self.levels[self.step];
            assert_eq!(n, cands.len(), "uncontrolled nondeterminism: prefix replays differently at point {}", self.step);
            c
        } else {
            self.levels.push((0, cands.len()));
            0
        };
        if cur_runnable && idx > 0 {
            self.preemptions += 1;
        }
        self.step += 1;
        let mut s = self.shared.lock().unwrap();
        s.points += 1;
        s.current.push(idx);
        s.max_depth = s.max_depth.max(self.step);
        Some(cands[idx])
    }

    fn next_u64(&mut self) -> u64 {
        panic!("the harness uses no scheduler-provided randomness")
    }
}

// ---------------------------------------------------------------- thread bodies

/// originals of thread `tid`: different bytes for every thread, so that data leaking from one
/// thread's round into another's cannot go unnoticed
fn orig(tid: usize) -> [[u8; 64]; 3] {
    let mut o = [[0u8; 64]; 3];
    for (i, sh) in o.iter_mut().enumerate() {
        for (j, b) in sh.iter_mut().enumerate() {
            *b = (0x11 + 0x61 * i + 0x29 * tid + 7 * j * (tid + 1)) as u8;
        }
    }
    o
}

/// one (3,2) round on explicit engines: returns recovery ++ restored
fn round<E: rs_ported::engine::Engine>(e: E, e2: E, low: bool, tid: usize) -> Vec<Vec<u8>> {
    #[allow(non_snake_case)]
    let ORIG = orig(tid);
    // which original is given to the decoder depends on the thread: different erasure patterns
    let keep = tid % 3;
    let mut out = Vec::new();
    let rec: Vec<Vec<u8>> = if low {
        let mut enc = LowRateEncoder::new(3, 2, 64, e, None).unwrap();
        for o in &ORIG {
            enc.add_original_shard(o).unwrap();
        }
        let r = enc.encode().unwrap();
        r.recovery_iter().map(|s| s.to_vec()).collect()
    } else {
        let mut enc = HighRateEncoder::new(3, 2, 64, e, None).unwrap();
        for o in &ORIG {
            enc.add_original_shard(o).unwrap();
        }
        let r = enc.encode().unwrap();
        r.recovery_iter().map(|s| s.to_vec()).collect()
    };
    let restored: Vec<Vec<u8>> = if low {
        let mut dec = LowRateDecoder::new(3, 2, 64, e2, None).unwrap();
        dec.add_original_shard(keep, ORIG[keep]).unwrap();
        dec.add_recovery_shard(0, &rec[0]).unwrap();
        dec.add_recovery_shard(1, &rec[1]).unwrap();
        let r = dec.decode().unwrap();
        r.restored_original_iter().map(|(_, s)| s.to_vec()).collect()
    } else {
        let mut dec = HighRateDecoder::new(3, 2, 64, e2, None).unwrap();
        dec.add_original_shard(keep, ORIG[keep]).unwrap();
        dec.add_recovery_shard(0, &rec[0]).unwrap();
        dec.add_recovery_shard(1, &rec[1]).unwrap();
        let r = dec.decode().unwrap();
        r.restored_original_iter().map(|(_, s)| s.to_vec()).collect()
    };
    let want: Vec<Vec<u8>> = (0..3).filter(|i| *i != keep).map(|i| ORIG[i].to_vec()).collect();
    assert_eq!(restored, want, "decode restored wrong data");
    out.extend(rec);
    out.extend(restored);
    out
}

fn body(name: &str, tid: usize) -> Vec<Vec<u8>> {
    #[allow(non_snake_case)]
    let ORIG = orig(tid);
    match name {
        "naive" => round(Naive::new(), Naive::new(), false, tid),
        "naive-low" => round(Naive::new(), Naive::new(), true, tid),
        "naive-enc" => {
            let mut enc = HighRateEncoder::new(3, 2, 64, Naive::new(), None).unwrap();
            for o in &ORIG {
                enc.add_original_shard(o).unwrap();
            }
            let r = enc.encode().unwrap();
            r.recovery_iter().map(|s| s.to_vec()).collect()
        }
        "nosimd-enc" | "avx2-enc" => {
            let rec: Vec<Vec<u8>> = if name == "nosimd-enc" {
                let mut enc = HighRateEncoder::new(3, 2, 64, NoSimd::new(), None).unwrap();
                for o in &ORIG {
                    enc.add_original_shard(o).unwrap();
                }
                let r = enc.encode().unwrap();
                r.recovery_iter().map(|s| s.to_vec()).collect()
            } else {
                let mut enc = LowRateEncoder::new(3, 2, 64, Avx2::new(), None).unwrap();
                for o in &ORIG {
                    enc.add_original_shard(o).unwrap();
                }
                let r = enc.encode().unwrap();
                r.recovery_iter().map(|s| s.to_vec()).collect()
            };
            rec
        }
        "nosimd" => round(NoSimd::new(), NoSimd::new(), false, tid),
        "ssse3" => round(Ssse3::new(), Ssse3::new(), true, tid),
        "avx2" => round(Avx2::new(), Avx2::new(), false, tid),
        "defeng" => round(DefaultEngine::new(), DefaultEngine::new(), false, tid),
        "rs" => {
            let mut enc = ReedSolomonEncoder::new(3, 2, 64).unwrap();
            for o in &ORIG {
                enc.add_original_shard(o).unwrap();
            }
            let rec: Vec<Vec<u8>> = enc.encode().unwrap().recovery_iter().map(|s| s.to_vec()).collect();
            let mut dec = ReedSolomonDecoder::new(3, 2, 64).unwrap();
            dec.add_original_shard(0, ORIG[0]).unwrap();
            dec.add_recovery_shard(1, &rec[1]).unwrap();
            dec.add_recovery_shard(0, &rec[0]).unwrap();
            let restored: Vec<Vec<u8>> = dec.decode().unwrap().restored_original_iter().map(|(_, s)| s.to_vec()).collect();
            assert_eq!(restored, vec![ORIG[1].to_vec(), ORIG[2].to_vec()]);
            let mut out = rec;
            out.extend(restored);
            out
        }
        "oneshot" => {
            let rec = rs_ported::encode(3, 2, ORIG).unwrap();
            let rest = rs_ported::decode(3, 2, [(2usize, ORIG[2])], [(0usize, &rec[0]), (1, &rec[1])]).unwrap();
            assert_eq!(rest[&0], ORIG[0].to_vec());
            assert_eq!(rest[&1], ORIG[1].to_vec());
            let mut out = rec.clone();
            out.push(rest[&0].clone());
            out.push(rest[&1].clone());
            out
        }
        other => panic!("unknown body {other}"),
    }
}

/// hand-over: an encoder is moved to another thread after two adds, a decoder between the adds and
/// decode(); returns the receiving side's results
fn handover(engine: &'static str, tid: usize) -> Vec<Vec<u8>> {
    #[allow(non_snake_case)]
    let ORIG = orig(tid);
    use shuttle::sync::mpsc::channel;
    let (tx_e, rx_e) = channel::<ReedSolomonEncoder>();
    let (tx_d, rx_d) = channel::<(ReedSolomonDecoder, Vec<Vec<u8>>)>();
    let (tx_rec, rx_rec) = channel::<Vec<Vec<u8>>>();
    let _ = engine;
    let producer = shuttle::thread::spawn(move || {
        let mut enc = ReedSolomonEncoder::new(3, 2, 64).unwrap();
        enc.add_original_shard(ORIG[0]).unwrap();
        enc.add_original_shard(ORIG[1]).unwrap();
        tx_e.send(enc).unwrap();
        // meanwhile start a decoder for the shards the other side will produce
        let rec = rx_rec.recv().unwrap();
        let mut dec = ReedSolomonDecoder::new(3, 2, 64).unwrap();
        dec.add_recovery_shard(1, &rec[1]).unwrap();
        dec.add_original_shard(2, ORIG[2]).unwrap();
        dec.add_recovery_shard(0, &rec[0]).unwrap();
        tx_d.send((dec, rec)).unwrap();
    });
    let consumer = shuttle::thread::spawn(move || {
        let mut enc = rx_e.recv().unwrap();
        enc.add_original_shard(ORIG[2]).unwrap();
        let rec: Vec<Vec<u8>> = enc.encode().unwrap().recovery_iter().map(|s| s.to_vec()).collect();
        tx_rec.send(rec).unwrap();
        let (mut dec, rec) = rx_d.recv().unwrap();
        let restored: Vec<Vec<u8>> = dec.decode().unwrap().restored_original_iter().map(|(_, s)| s.to_vec()).collect();
        assert_eq!(restored, vec![ORIG[0].to_vec(), ORIG[1].to_vec()], "hand-over decode restored wrong data");
        let mut out = rec;
        out.extend(restored);
        out
    });
    producer.join().unwrap();
    consumer.join().unwrap()
}

// ---------------------------------------------------------------- scenarios

#[derive(Clone)]
struct Scenario {
    name: &'static str,
    bodies: Vec<&'static str>, // "handover" is special
}

fn scenarios(thorough: bool) -> Vec<(Scenario, Vec<usize>, usize)> {
    // (scenario, preemption bounds to iterate (usize::MAX = all schedules), execution cap)
    let all = usize::MAX;
    let s = |name: &'static str, bodies: &[&'static str]| Scenario { name, bodies: bodies.to_vec() };
    let mut v = vec![
        (s("naive||naive", &["naive", "naive"]), vec![0, 1, 2, all], 400_000),
        (s("naive||naive-low", &["naive", "naive-low"]), vec![0, 1, 2, all], 400_000),
        (s("naive-enc||oneshot", &["naive-enc", "oneshot"]), vec![0, 1, 2], 400_000),
        // first use of the NoSimd table family racing with first use of the SIMD table family
        (s("nosimd-enc||avx2-enc", &["nosimd-enc", "avx2-enc"]), if thorough { vec![0, 1, 2, 3, all] } else { vec![0, 1, 2] }, 400_000),
        (s("handover", &["handover"]), if thorough { vec![0, 1, 2, 3, all] } else { vec![0, 1, 2, 3] }, 400_000),
    ];
    if thorough {
        v.extend(vec![
            (s("naive||nosimd", &["naive", "nosimd"]), vec![0, 1, 2, all], 400_000),
            (s("nosimd||avx2", &["nosimd", "avx2"]), vec![0, 1, 2, 3], 400_000),
            (s("ssse3||avx2", &["ssse3", "avx2"]), vec![0, 1, 2, 3], 400_000),
            (s("rs||rs", &["rs", "rs"]), vec![0, 1, 2, 3], 400_000),
            (s("rs||oneshot", &["rs", "oneshot"]), vec![0, 1, 2, 3], 400_000),
            (s("defeng||naive-low", &["defeng", "naive-low"]), vec![0, 1, 2, 3], 400_000),
            (s("naive||nosimd||avx2", &["naive", "nosimd", "avx2"]), vec![0, 1, 2], 400_000),
            (s("naive||naive-low||naive-enc", &["naive", "naive-low", "naive-enc"]), vec![0, 1, 2, 3], 400_000),
            (s("rs||oneshot||nosimd", &["rs", "oneshot", "nosimd"]), vec![0, 1, 2], 400_000),
            (s("handover||naive", &["handover", "naive"]), vec![0, 1, 2], 400_000),
        ]);
    } else {
        v.push((s("naive||naive-low||naive-enc", &["naive", "naive-low", "naive-enc"]), vec![0, 1, 2], 400_000));
    }
    v
}

fn scenario_by_name(name: &str) -> Scenario {
    for t in [true, false] {
        for (s, _, _) in scenarios(t) {
            if s.name == name {
                return s;
            }
        }
    }
    panic!("unknown scenario {name}")
}

struct Outcome {
    executions: usize,
    points: u64,
    max_depth: usize,
    capped: bool,
    signatures: BTreeSet<String>,
    failure: Option<(Vec<usize>, String)>,
}

thread_local! {
    static LAST_PANIC: std::cell::RefCell<String> = const { std::cell::RefCell::new(String::new()) };
}
static PANIC_MSG: Mutex<String> = Mutex::new(String::new());

fn explore(sc: &Scenario, bound: usize, fixed: Option<Vec<usize>>, cap: usize, expected: &Arc<Vec<Vec<Vec<u8>>>>, deadline: Option<Instant>) -> Outcome {
    let shared = Arc::new(Mutex::new(Shared::default()));
    let sched = BoundedDfs { bound, levels: vec![], step: 0, preemptions: 0, started: false, fixed, shared: shared.clone(), max_executions: cap, deadline };
    let mut cfg = shuttle::Config::new();
    cfg.stack_size = 8 << 20; // decode keeps a 128 KiB array on the stack
    let runner = shuttle::Runner::new(sched, cfg);
    let sigs: Arc<Mutex<BTreeSet<String>>> = Arc::new(Mutex::new(BTreeSet::new()));
    let sigs2 = sigs.clone();
    let bodies = sc.bodies.clone();
    let expected = expected.clone();
    let _ = rs_ported::vtrace::take();
    let res = catch_unwind(AssertUnwindSafe(|| {
        runner.run(move || {
            let _ = rs_ported::vtrace::take();
            let mut hs = Vec::new();
            for (ti, b) in bodies.iter().enumerate() {
                let b = *b;
                hs.push(shuttle::thread::spawn(move || if b == "handover" { handover("default", ti) } else { body(b, ti) }));
            }
            let outs: Vec<Vec<Vec<u8>>> = hs.into_iter().map(|h| h.join().expect("thread panicked")).collect();
            for (i, o) in outs.iter().enumerate() {
                assert!(o == &expected[i], "thread {i} ({}) produced results different from sequential use", bodies[i]);
            }
            let ev = rs_ported::vtrace::take();
            let sig: Vec<String> = ev.iter().map(|(n, t)| format!("{}@{t}", n.trim_start_matches("initialize_"))).collect();
            sigs2.lock().unwrap().insert(sig.join(","));
        })
    }));
    let s = shared.lock().unwrap();
    let failure = match res {
        Ok(_) => None,
        Err(e) => {
            let msg = if let Some(m) = e.downcast_ref::<String>() {
                m.clone()
            } else if let Some(m) = e.downcast_ref::<&str>() {
                m.to_string()
            } else {
                PANIC_MSG.lock().unwrap().clone()
            };
            Some((s.current.clone(), msg))
        }
    };
    let signatures = sigs.lock().unwrap().clone();
    Outcome { executions: s.executions, points: s.points, max_depth: s.max_depth, capped: s.capped, signatures, failure }
}

/// sequential reference: each body alone, one thread, under the same runtime
fn sequential(sc: &Scenario) -> Vec<Vec<Vec<u8>>> {
    let mut out = Vec::new();
    for (ti, b) in sc.bodies.iter().enumerate() {
        let b = *b;
        let slot: Arc<Mutex<Vec<Vec<u8>>>> = Arc::new(Mutex::new(Vec::new()));
        let slot2 = slot.clone();
        let mut cfg = shuttle::Config::new();
        cfg.stack_size = 8 << 20;
        let shared = Arc::new(Mutex::new(Shared::default()));
        let sched = BoundedDfs { bound: 0, levels: vec![], step: 0, preemptions: 0, started: false, fixed: Some(vec![]), shared, max_executions: 1, deadline: None };
        shuttle::Runner::new(sched, cfg).run(move || {
            let r = if b == "handover" { handover("default", ti) } else { body(b, ti) };
            *slot2.lock().unwrap() = r;
        });
        let v = slot.lock().unwrap().clone();
        out.push(v);
    }
    out
}

extern "C" {
    #[link_name = "_exit"]
    fn libc_exit(code: i32) -> !;
}

fn jstr(s: &str) -> String {
    let mut o = String::from("\"");
    for c in s.chars() {
        match c {
            '"' => o.push_str("\\\""),
            '\\' => o.push_str("\\\\"),
            '\n' => o.push_str("\\n"),
            c if (c as u32) < 0x20 => o.push(' '),
            c => o.push(c),
        }
    }
    o.push('"');
    o
}

fn main() {
    let args: Vec<String> = std::env::args().collect();
    std::env::set_var("SHUTTLE_SILENCE_WARNINGS", "1");
    std::panic::set_hook(Box::new(|info| {
        *PANIC_MSG.lock().unwrap_or_else(|e| e.into_inner()) = format!("{info}");
    }));
    let verif_dir = std::env::var("VERIF_DIR").unwrap_or_else(|_| "/verif".into());
    if args.len() >= 3 && args[1] == "--replay" {
        // "<scenario> <bound> <choices>"
        let p: Vec<&str> = args[2].split_whitespace().collect();
        let sc = scenario_by_name(p[0]);
        let bound: usize = if p[1] == "all" { usize::MAX } else { p[1].parse().unwrap() };
        let choices: Vec<usize> = if p.len() > 2 && p[2] != "-" { p[2].split(',').map(|x| x.parse().unwrap()).collect() } else { vec![] };
        let expected = Arc::new(sequential(&sc));
        let a = explore(&sc, bound, Some(choices.clone()), 1, &expected, None);
        let b = explore(&sc, bound, Some(choices), 1, &expected, None);
        let fa = a.failure.as_ref().map(|f| f.1.clone());
        let fb = b.failure.as_ref().map(|f| f.1.clone());
        if fa.is_some() != fb.is_some() || a.signatures != b.signatures {
            println!("MACHINERY-ERROR: replay of the same schedule is not deterministic: {fa:?} vs {fb:?}");
            std::process::exit(2);
        }
        if fa.as_ref().map(|m| m.contains("replay diverged")).unwrap_or(false) {
            println!("MACHINERY-ERROR: the recorded schedule does not apply to this tree (different scheduling points): {}", fa.unwrap());
            std::process::exit(2);
        }
        match fa {
            None => {
                println!("REPLAY property=C16 result=held case={}", args[2]);
                std::process::exit(0);
            }
            Some(m) => {
                println!("REPLAY property=C16 result=violation case={}\n  {m}", args[2]);
                std::process::exit(1);
            }
        }
    }
    if args.len() >= 3 && args[1] == "--child" {
        // one scenario, all its bounds, in an own process: a failure inside the runtime cannot
        // disturb other explorations. Prints LINE/ROW/SAMPLE/CAP/DONE/FAIL records.
        let thorough = args.len() > 3 && args[3] == "thorough";
        let (sc, bounds, cap) = scenarios(thorough).into_iter().find(|(s, _, _)| s.name == args[2]).expect("scenario");
        let budget_s: u64 = if thorough { 1500 } else { 40 };
        let t0 = Instant::now();
        let expected = Arc::new(sequential(&sc));
        let d1 = explore(&sc, 0, Some(vec![]), 1, &expected, None);
        if d1.failure.is_none() {
            let d2 = explore(&sc, 0, Some(vec![]), 1, &expected, None);
            if d1.signatures != d2.signatures || d1.points != d2.points || d2.failure.is_some() {
                println!("MACH\tscenario {}: the same schedule replayed twice gave different observations", sc.name);
                std::process::exit(2);
            }
        }
        let mut sc_sigs: BTreeSet<String> = BTreeSet::new();
        let mut sampled = false;
        for &bound in &bounds {
            let bname = if bound == usize::MAX { "all".to_string() } else { bound.to_string() };
            if t0.elapsed().as_secs() > budget_s {
                println!("CAP\ttime budget reached before scenario {} bound {bname}", sc.name);
                continue;
            }
            let o = explore(&sc, bound, None, cap, &expected, Some(t0 + std::time::Duration::from_secs(budget_s)));
            sc_sigs.extend(o.signatures.iter().cloned());
            println!("COUNT\t{}\t{}", o.executions, o.points);
            if o.capped {
                println!("CAP\tscenario {} bound {bname}: cap reached after {} schedules (execution cap {cap} / time budget {budget_s}s); lower bounds completed", sc.name, o.executions);
            } else if o.failure.is_none() {
                println!("DONE\t{}:{bname}", sc.name);
            }
            let nthreads = if sc.name.starts_with("handover") { sc.bodies.len() + 1 } else { sc.bodies.len() };
            println!("ROW\t{{\"scenario\":{},\"threads\":{},\"preemption_bound\":{},\"schedules\":{},\"scheduling_points\":{},\"max_depth\":{},\"distinct_init_orders\":{},\"complete\":{}}}", jstr(sc.name), nthreads, jstr(&bname), o.executions, o.points, o.max_depth, o.signatures.len(), !o.capped && o.failure.is_none());
            println!("LINE\tscenario={} bound={bname} schedules={} points={} max_depth={} init_orders={} capped={}", sc.name, o.executions, o.points, o.max_depth, o.signatures.len(), o.capped);
            if !sampled {
                if let Some(sig) = o.signatures.iter().nth(o.signatures.len() / 2) {
                    println!("SAMPLE\tscenario {} bound {bname}: one explored execution initialised the tables in the order [{sig}] (table@thread)", sc.name);
                    sampled = true;
                }
            }
            if let Some((choices, msg)) = o.failure {
                let cs = if choices.is_empty() { "-".to_string() } else { choices.iter().map(|c| c.to_string()).collect::<Vec<_>>().join(",") };
                println!("FAIL\t{}-bound{bname}\t{} {bname} {cs}\t{}", sc.name, sc.name, msg.replace(['\n', '\t'], " "));
                println!("SIGS\t{}", sc_sigs.len());
                use std::io::Write;
                let _ = std::io::stdout().flush();
                // leave at once: the runtime's thread-local state is not reusable after a failure
                unsafe { libc_exit(0) };
            }
        }
        println!("SIGS\t{}", sc_sigs.len());
        std::process::exit(0);
    }
    let mut tier = "quick".to_string();
    let mut i = 1;
    while i < args.len() {
        if args[i] == "--tier" {
            tier = args[i + 1].clone();
            i += 1;
        }
        i += 1;
    }
    let thorough = tier == "thorough";
    let seed: i128 = std::env::var("VERIF_SEED").ok().and_then(|s| s.parse().ok()).unwrap_or(1);
    let t0 = Instant::now();
    let mut total_exec = 0u64;
    let mut total_points = 0u64;
    let mut rows: Vec<String> = Vec::new();
    let mut samples: Vec<String> = Vec::new();
    let mut violations: Vec<(String, String, String)> = Vec::new(); // (key, case, message)
    let mut machinery: Vec<String> = Vec::new();
    let mut all_sigs = 0usize;
    let mut caps: Vec<String> = Vec::new();
    let mut completed_bounds: Vec<String> = Vec::new();
    let budget_s: u64 = if thorough { 1500 } else { 45 };
    let plan = scenarios(thorough);
    let nthreads: usize = std::env::var("VERIF_THREADS").ok().and_then(|s| s.parse().ok()).unwrap_or_else(|| std::thread::available_parallelism().map(|n| n.get()).unwrap_or(4));
    let next = std::sync::atomic::AtomicUsize::new(0);
    let outputs: Mutex<Vec<(usize, String, Option<i32>)>> = Mutex::new(Vec::new());
    let exe = std::env::current_exe().expect("exe");
    std::thread::scope(|scope| {
        for _ in 0..nthreads.min(plan.len()) {
            scope.spawn(|| loop {
                let i = next.fetch_add(1, std::sync::atomic::Ordering::SeqCst);
                if i >= plan.len() {
                    break;
                }
                let out = std::process::Command::new(&exe).args(["--child", plan[i].0.name, if thorough { "thorough" } else { "quick" }]).output().expect("spawn child");
                outputs.lock().unwrap().push((i, String::from_utf8_lossy(&out.stdout).to_string(), out.status.code()));
            });
        }
    });
    let _ = budget_s;
    let mut outputs = outputs.into_inner().unwrap();
    outputs.sort_by_key(|(i, _, _)| *i);
    for (i, txt, code) in outputs {
        let mut finished = false;
        for line in txt.lines() {
            let p: Vec<&str> = line.splitn(4, '\t').collect();
            match p[0] {
                "COUNT" => {
                    total_exec += p[1].parse::<u64>().unwrap_or(0);
                    total_points += p[2].parse::<u64>().unwrap_or(0);
                }
                "ROW" => rows.push(p[1].to_string()),
                "LINE" => println!("{}", p[1]),
                "SAMPLE" => {
                    if samples.len() < 5 {
                        samples.push(p[1].to_string());
                    }
                }
                "CAP" => caps.push(p[1].to_string()),
                "DONE" => completed_bounds.push(p[1].to_string()),
                "MACH" => machinery.push(p[1].to_string()),
                "FAIL" => {
                    violations.push((p[1].to_string(), p[2].to_string(), p[3].to_string()));
                }
                "SIGS" => {
                    all_sigs += p[1].parse::<usize>().unwrap_or(0);
                    finished = true;
                }
                _ => {}
            }
        }
        if !finished {
            machinery.push(format!("exploration process of scenario {} ended abnormally (exit {:?}) without a result", plan[i].0.name, code));
        }
    }
    // known findings
    let known = std::fs::read_to_string(format!("{verif_dir}/known_findings.json")).unwrap_or_default();
    let mut unlisted = 0;
    let _ = std::fs::create_dir_all(format!("{verif_dir}/replays"));
    for (key, case, msg) in &violations {
        if known.contains(&format!("\"key\": {}", jstr(key))) && known.contains("\"status\": \"open\"") {
            println!("KNOWN-FINDING: property=C16 {key}");
            continue;
        }
        unlisted += 1;
        let fname: String = key.chars().map(|c| if c.is_ascii_alphanumeric() || c == '-' { c } else { '_' }).collect();
        let path = format!("{verif_dir}/replays/C16-{fname}.json");
        let body = format!("{{\n \"property\": \"C16\",\n \"key\": {},\n \"case\": {},\n \"expected\": \"every thread's results equal sequential use; no deadlock, no panic\",\n \"observed\": {}\n}}\n", jstr(key), jstr(case), jstr(msg));
        std::fs::write(&path, body).expect("write replay");
        println!("VIOLATION property=C16 replay={path}");
        println!("  schedule: {case}\n  observed: {msg}");
    }
    if !machinery.is_empty() {
        for m in &machinery {
            println!("MACHINERY-ERROR: {m}");
        }
        std::process::exit(2);
    }
    let ev_path = std::env::var("VERIF_EVIDENCE_OUT").unwrap_or_else(|_| format!("{verif_dir}/evidence/C16.json"));
    if samples.is_empty() {
        samples.push("(no execution completed)".into());
    }
    let ev = format!(
        "{{\n \"property_id\": \"C16\",\n \"tier\": {},\n \"seed\": {},\n \"level\": \"model_checking\",\n \"coverage\": {{\n  \"states\": {},\n  \"transitions\": {},\n  \"traces_validated_against_impl\": {},\n  \"evaluations\": {},\n  \"distinct_nontrivial\": {},\n  \"rule\": \"one evaluation = one complete schedule of the real code (repository source re-targeted onto shuttle primitives) executed under the bounded-preemption DFS scheduler and compared, thread by thread, with sequential use; states = scheduling points visited, transitions = scheduling decisions; distinct_nontrivial = number of distinct orders (table@thread) in which the racing threads initialised the shared tables, summed over scenarios - more than one per scenario shows that first-use really raced\",\n  \"exhaustive\": {},\n  \"caps_hit\": [{}],\n  \"completed\": [{}],\n  \"per_scenario\": [\n   {}\n  ],\n  \"samples\": [{}]\n }},\n \"assumptions\": [\"scheduling points are the operations of shuttle's sync/thread/lazy primitives onto which every std::sync / std::thread use of the source is re-targeted; unsynchronised accesses have no scheduling point\", \"sequentially consistent atomics (the crate has none of its own); std's LazyLock implementation itself is trusted and modelled by shuttle's blocking Once\", \"2-thread scenarios: all schedules (bound 'all'); 3-thread scenarios: all schedules with at most the stated number of preemptions\"],\n \"wall_s\": {:.1},\n \"violations\": {}\n}}\n",
        jstr(&tier),
        seed,
        total_points.max(1),
        total_points.max(1),
        total_exec,
        total_exec.max(1),
        all_sigs,
        caps.is_empty(),
        caps.iter().map(|c| jstr(c)).collect::<Vec<_>>().join(", "),
        completed_bounds.iter().map(|c| jstr(c)).collect::<Vec<_>>().join(", "),
        rows.join(",\n   "),
        samples.iter().map(|c| jstr(c)).collect::<Vec<_>>().join(", "),
        t0.elapsed().as_secs_f64(),
        unlisted
    );
    if let Some(dir) = std::path::Path::new(&ev_path).parent() {
        let _ = std::fs::create_dir_all(dir);
    }
    std::fs::write(&ev_path, ev).expect("write evidence");
    println!("C16 tier={tier} schedules={total_exec} scheduling_points={total_points} distinct_init_orders={all_sigs} violations={unlisted} wall={:.1}s", t0.elapsed().as_secs_f64());
    std::process::exit(if unlisted == 0 { 0 } else { 1 });
}
