//! C11 — decoding is independent of arrival order and of surplus shards.
//! Explicit-state search of the received-set lattice: states are concrete decoder states
//! (verif_digest), transitions add one shard not yet given. Every order of every subset is covered
//! because every path of the lattice is a transition sequence of the search; if all orders of a set
//! lead to the same concrete state the search closes with exactly 2^n states. Every state holding at
//! least k shards is decoded and compared with the originals.
use std::collections::HashMap;

use crate::core::*;
use crate::json::J;
use crate::kv::*;
use crate::report::*;
use crate::rt::*;
use crate::with_engine;

type V = (String, String);

fn soil_opt(soil: u64) -> Option<u64> {
    if soil == 0 {
        None
    } else {
        Some(soil)
    }
}

/// add shards in `order` to a fresh (soiled) decoder; returns digest, or the failure
fn digest_after(g: &Group, order: &[usize]) -> Result<u64, String> {
    let res = guard(|| -> Result<u64, reed_solomon_simd::Error> {
        let kind = codec_kind(&g.codec);
        with_engine!(g.eng.as_str(), E => {
            let mut dec = make_decoder::<E>(kind, g.k, g.r, g.bytes, soil_opt(g.soil))?;
            for &s in order {
                if s < g.k { dec.add_original(s, &g.originals[s])?; } else { dec.add_recovery(s - g.k, &g.recovery[s - g.k])?; }
            }
            Ok(dec.digest())
        })
    });
    match res {
        Ok(Ok(d)) => Ok(d),
        Ok(Err(e)) => Err(format!("Err({e:?})")),
        Err(p) => Err(format!("PANIC: {p}")),
    }
}

fn check_order(g: &Group, order: &[usize]) -> Result<(), V> {
    let og: Vec<usize> = order.iter().copied().filter(|s| *s < g.k).collect();
    let m = g.decode(&[], &[], Some(order)).map_err(|e| (format!("decode Ok after adds in order {}", fmt_list(order)), e))?;
    g.check_restored(&og, &m).map_err(|e| (format!("restored == originals not given (order {})", fmt_list(order)), e))
}

pub fn replay(_ctx: &Ctx, case: &str) -> Result<(), String> {
    let kv = Kv::parse(case)?;
    let g = Group::from_kv(&kv).map_err(|e| format!("encode failed: {e}"))?;
    let order = kv.list("order");
    if kv.opt("addonly").is_some() {
        return digest_after(&g, &order).map(|_| ()).map_err(|e| format!("expected every add of a not-yet-given shard to succeed; observed {e}"));
    }
    check_order(&g, &order).map_err(|(e, o)| format!("expected {e}; observed {o}"))
}

struct Out {
    states: u64,
    transitions: u64,
    decodes: u64,
    nontrivial: u64,
    closed_exact: bool,
    viols: Vec<Violation>,
    sample: Option<String>,
}

fn explore_group(g: &Group, full_perms: bool) -> Out {
    let n = g.k + g.r;
    let mut out = Out { states: 0, transitions: 0, decodes: 0, nontrivial: 0, closed_exact: true, viols: Vec::new(), sample: None };
    let case = |order: &[usize]| g.kv().with("order", fmt_list(order)).dump();
    let key = |order: &[usize]| format!("{}-{}-k{}r{}-order{}", g.codec, g.eng, g.k, g.r, fmt_list(order));
    // level-synchronous BFS; node = (mask, digest) -> representative order
    let mut level: HashMap<(u32, u64), Vec<usize>> = HashMap::new();
    match digest_after(g, &[]) {
        Ok(d) => {
            level.insert((0, d), vec![]);
        }
        Err(e) => {
            out.viols.push(Violation { key: key(&[]), case: format!("{} addonly=1", case(&[])), expected: "construction Ok".into(), observed: e });
            return out;
        }
    }
    let mut all_states: Vec<(u32, Vec<usize>)> = Vec::new();
    for _depth in 0..=n {
        let mut next: HashMap<(u32, u64), Vec<usize>> = HashMap::new();
        for ((mask, _), order) in &level {
            out.states += 1;
            all_states.push((*mask, order.clone()));
            for s in 0..n {
                if mask >> s & 1 != 0 {
                    continue;
                }
                let mut o2 = order.clone();
                o2.push(s);
                out.transitions += 1;
                match digest_after(g, &o2) {
                    Ok(d) => {
                        next.entry((mask | 1 << s, d)).or_insert(o2);
                    }
                    Err(e) => out.viols.push(Violation { key: key(&o2), case: format!("{} addonly=1", case(&o2)), expected: format!("add of shard {s} (not given before) Ok"), observed: e }),
                }
            }
        }
        if next.is_empty() {
            break;
        }
        level = next;
    }
    if out.states != 1u64 << n {
        out.closed_exact = false;
    }
    // decode every state with at least k shards
    for (mask, order) in &all_states {
        if (mask.count_ones() as usize) < g.k {
            continue;
        }
        out.decodes += 1;
        let given_o = (mask & ((1u32 << g.k) - 1)).count_ones() as usize;
        if given_o < g.k && mask >> g.k != 0 {
            out.nontrivial += 1;
        }
        if out.sample.is_none() && order.len() == g.k + 1 && given_o < g.k {
            out.sample = Some(case(order));
        }
        if let Err((exp, obs)) = check_order(g, order) {
            out.viols.push(Violation { key: key(order), case: case(order), expected: exp, observed: obs });
        }
    }
    // cross-check of the merging argument: all permutations end to end, no merging
    if full_perms {
        for mask in subsets_at_least_k(g.k, g.r) {
            let items: Vec<usize> = (0..n).filter(|s| mask >> s & 1 != 0).collect();
            let mut perm = items.clone();
            permute(&mut perm, 0, &mut |p: &[usize]| {
                out.decodes += 1;
                out.transitions += p.len() as u64;
                if let Err((exp, obs)) = check_order(g, p) {
                    if out.viols.len() < 50 {
                        out.viols.push(Violation { key: key(p), case: case(p), expected: exp, observed: obs });
                    }
                }
            });
        }
    }
    out
}

fn permute(a: &mut Vec<usize>, i: usize, f: &mut dyn FnMut(&[usize])) {
    if i == a.len() {
        f(a);
        return;
    }
    for j in i..a.len() {
        a.swap(i, j);
        permute(a, i + 1, f);
        a.swap(i, j);
    }
}

pub fn run(ctx: &Ctx, rep: &mut Report) {
    let seed = ctx.seed;
    let soil = seed | 1;
    rep.rule = "state = concrete decoder state (verif_digest) reached by adding a set of shards in some order; transition = add_original_shard/add_recovery_shard of a shard not yet given; all paths of the subset lattice are explored (= every order of every subset); every state with >= k shards is decoded and compared with the originals (restored set exactly the originals not given, empty when all are given); non-trivial = decoded states with an original missing and a recovery shard present; distinct by (engine,codec,k,r,concrete state)".into();
    rep.assume("verif_digest hashes the fields that exist in the hook commit; state a change adds elsewhere is invisible to merging, which is why orders are additionally enumerated unmerged (all permutations for small k+r, all ordered k- and (k+1)-tuples for skewed configurations)");
    rep.assume("merging two orders is exact: same verif_digest = same configuration, counters, bitmap and working memory, hence same future behaviour of this deterministic code; different digests are never merged");
    let (nmax_fast, nmax_all, pmax) = if ctx.thorough() { (11usize, 7usize, 6usize) } else { (7, 5, 5) };
    let mut specs: Vec<(String, &'static str, usize, usize, bool)> = Vec::new();
    for k in 1..nmax_fast {
        for r in 1..nmax_fast {
            if k + r > nmax_fast {
                continue;
            }
            for eng in engines_all() {
                let fast = engines_fast().contains(&eng);
                if !fast && k + r > nmax_all {
                    continue;
                }
                for codec in if eng == "default" { vec!["rs", "def"] } else { vec!["high", "low", "def"] } {
                    specs.push((eng.to_string(), codec, k, r, k + r <= pmax && (fast || eng == "default")));
                }
            }
        }
    }
    // the same lattice with big shards (4 KiB and more), where size-gated code paths live
    for &(k, r) in &[(1usize, 2usize), (2, 2), (2, 3), (3, 2)] {
        for eng in engines_fast() {
            for codec in ["high", "low", "def"] {
                specs.push((format!("{eng}#big"), codec, k, r, true));
            }
        }
    }
    // mid-size configurations: exactly-k sets against supersets, in shuffled orders
    rep.bound("big_shard_lattice", J::s("(1,2) (2,2) (2,3) (3,2) with shards of 4096 and 8194 bytes: whole lattice and all permutations"));
    rep.bound("lattice", J::s(format!("all (k,r) with k+r <= {nmax_fast} on {:?}, k+r <= {nmax_all} on the other engines; codecs high/low/def (rs/def on the default engine)", engines_fast())));
    rep.bound("full_permutations", J::s(format!("every permutation of every sufficient subset, unmerged, for k+r <= {pmax}")));
    // unmerged: every ORDERED k-tuple and (k+1)-tuple of distinct shards for configurations with few
    // originals and many recovery shards (and vice versa), where whole lattices are out of reach
    let tuple_cfgs: Vec<(usize, usize)> = if ctx.thorough() {
        vec![(1, 9), (2, 9), (3, 8), (3, 9), (2, 12), (3, 12), (4, 8), (2, 17), (3, 17)]
    } else {
        vec![(2, 9), (3, 8), (3, 9), (2, 12)]
    };
    let mut tuple_jobs: Vec<(String, &'static str, usize, usize)> = Vec::new();
    for &(k, r) in &tuple_cfgs {
        for eng in engines_fast() {
            for codec in ["high", "low", "def"] {
                tuple_jobs.push((eng.to_string(), codec, k, r));
            }
        }
    }
    rep.bound("ordered_tuples", J::s(format!("every ordered k-tuple and (k+1)-tuple of distinct shards unmerged, for {tuple_cfgs:?} x {{high,low,def}} x {:?}", engines_fast())));
    let tuple_results: Vec<(u64, u64, Vec<Violation>)> = par_for(tuple_jobs.len(), 1, |i| {
        let (eng, codec, k, r) = &tuple_jobs[i];
        let (k, r) = (*k, *r);
        let n = k + r;
        let g = match build_group(eng, codec, k, r, "dense:64", soil, seed) {
            Ok(g) => g,
            Err(e) => return (0, 0, vec![Violation { key: format!("encode-{codec}-{eng}-{k}-{r}"), case: Kv::new().with("eng", eng).with("codec", codec).with("k", k).with("r", r).with("data", "dense:64").with("soil", soil).with("seed", seed).with("order", "-").dump(), expected: "encode Ok".into(), observed: e }]),
        };
        let mut viols = Vec::new();
        let (mut decodes, mut nontrivial) = (0u64, 0u64);
        let lens: Vec<usize> = if k > 4 { vec![k] } else { vec![k, k + 1] };
        for len in lens {
            // all ordered tuples of `len` distinct shards out of n
            let mut idx: Vec<usize> = Vec::with_capacity(len);
            fn rec(n: usize, len: usize, idx: &mut Vec<usize>, f: &mut dyn FnMut(&[usize])) {
                if idx.len() == len {
                    f(idx);
                    return;
                }
                for s in 0..n {
                    if !idx.contains(&s) {
                        idx.push(s);
                        rec(n, len, idx, f);
                        idx.pop();
                    }
                }
            }
            rec(n, len, &mut idx, &mut |order: &[usize]| {
                decodes += 1;
                if order.iter().any(|s| *s >= k) && order.iter().filter(|s| **s < k).count() < k {
                    nontrivial += 1;
                }
                if viols.len() < 20 {
                    if let Err((exp, obs)) = check_order(&g, order) {
                        viols.push(Violation { key: format!("{}-{}-k{}r{}-order{}", g.codec, g.eng, g.k, g.r, fmt_list(order)), case: g.kv().with("order", fmt_list(order)).dump(), expected: exp, observed: obs });
                    }
                }
            });
        }
        (decodes, nontrivial, viols)
    });
    let mut tuple_decodes = 0u64;
    for (d, nt, vs) in tuple_results {
        tuple_decodes += d;
        rep.traces += d;
        rep.evaluations += d;
        rep.transitions += d;
        rep.states += d;
        rep.distinct += nt;
        rep.violations(vs);
    }
    rep.extra("ordered_tuple_decodes", J::i(tuple_decodes));

    // mid-size: a minimal sufficient set, then the same set plus surplus shards, in three arrival orders
    let mids: Vec<(usize, usize)> = if ctx.thorough() { vec![(100, 300), (300, 100), (1000, 3000), (3000, 1000), (600, 600), (4000, 4000), (255, 257)] } else { vec![(100, 300), (300, 100), (1000, 3000), (3000, 1000)] };
    let mut mid_jobs: Vec<(&'static str, &'static str, usize, usize)> = Vec::new();
    for &(k, r) in &mids {
        for codec in ["high", "low", "def"] {
            if spec_supports(codec_kind(codec), k, r) {
                mid_jobs.push((if engines_fast().contains(&"avx2") { "avx2" } else { "nosimd" }, codec, k, r));
            }
        }
    }
    rep.bound("mid_size_surplus", J::s(format!("{mids:?}: minimal set and supersets with 1, 2 and many surplus shards, in ascending, descending and interleaved arrival order")));
    let mid_results: Vec<(u64, Vec<Violation>)> = par_for(mid_jobs.len(), 1, |i| {
        let (eng, codec, k, r) = mid_jobs[i];
        let g = match build_group(eng, codec, k, r, "dense:64", soil, seed) {
            Ok(g) => g,
            Err(e) => return (0, vec![Violation { key: format!("encode-{codec}-{eng}-{k}-{r}"), case: Kv::new().with("eng", eng).with("codec", codec).with("k", k).with("r", r).with("data", "dense:64").with("soil", soil).with("seed", seed).with("order", "-").dump(), expected: "encode Ok".into(), observed: e }]),
        };
        let m = k.min(r);
        // minimal: originals m.. and recovery 0..m spread over the range (every (r/m)-th)
        let step = (r / m).max(1);
        let rec_min: Vec<usize> = (0..m).map(|j| j * step).collect();
        let base: Vec<usize> = (m..k).chain(rec_min.iter().map(|j| k + j)).collect();
        let unused: Vec<usize> = (0..r).filter(|j| !rec_min.contains(j)).map(|j| k + j).collect();
        let mut sets: Vec<Vec<usize>> = vec![base.clone()];
        for extra in [1usize, 2, unused.len() / 2, unused.len()] {
            if extra > 0 && extra <= unused.len() {
                let mut s = base.clone();
                s.extend(unused.iter().rev().take(extra)); // the highest unused recovery indexes
                sets.push(s.clone());
                let mut s2 = base.clone();
                s2.extend(unused.iter().take(extra)); // the lowest unused ones
                sets.push(s2);
            }
        }
        let mut n = 0u64;
        let mut viols = Vec::new();
        for set in sets {
            let mut asc = set.clone();
            asc.sort();
            let mut desc = asc.clone();
            desc.reverse();
            let mut inter: Vec<usize> = Vec::with_capacity(asc.len());
            let (mut lo, mut hi) = (0usize, asc.len());
            while lo < hi {
                inter.push(asc[lo]);
                lo += 1;
                if lo < hi {
                    hi -= 1;
                    inter.push(asc[hi]);
                }
            }
            for order in [asc, desc, inter] {
                n += 1;
                if viols.len() < 10 {
                    if let Err((exp, obs)) = check_order(&g, &order) {
                        let short = if order.len() > 12 { format!("{}..({} shards)", fmt_list(&order[..12]), order.len()) } else { fmt_list(&order) };
                        viols.push(Violation { key: format!("{}-{}-k{}r{}-mid-order{}", g.codec, g.eng, g.k, g.r, short), case: g.kv().with("order", fmt_list(&order)).dump(), expected: exp, observed: obs });
                    }
                }
            }
        }
        (n, viols)
    });
    for (n, vs) in mid_results {
        rep.traces += n;
        rep.evaluations += n;
        rep.states += n;
        rep.transitions += n;
        rep.distinct += n;
        rep.violations(vs);
    }

    // work areas beyond position 32768: scattered erasure sets, each exactly sufficient and with one surplus shard
    // (a different locator for the same data), recovery shards first and originals first
    let bigs: Vec<(usize, usize)> = if ctx.thorough() { vec![(40000, 1000), (1000, 40000), (30000, 3000), (32768, 32768), (50000, 15000)] } else { vec![(40000, 1000), (1000, 40000)] };
    let mut big_jobs: Vec<(&'static str, &'static str, usize, usize)> = Vec::new();
    for &(k, r) in &bigs {
        for codec in ["high", "low", "def"] {
            if spec_supports(codec_kind(codec), k, r) && (ctx.thorough() || codec != "def") {
                big_jobs.push((if engines_fast().contains(&"avx2") && (k + r) % 2 == 0 { "avx2" } else { "nosimd" }, codec, k, r));
            }
        }
    }
    rep.bound("beyond_32768_surplus", J::s(format!("{bigs:?}: 12 scattered erasure sets and up to 6 directed ones (locator exactly 0 / 65535 at a received position, found by running the real eval_poly on candidate sets), each exactly sufficient and with one surplus recovery shard, in two arrival orders")));
    let big_results: Vec<(u64, Vec<Violation>)> = par_for(big_jobs.len(), 1, |i| {
        let (eng, codec, k, r) = big_jobs[i];
        let g = match build_group(eng, codec, k, r, "dense:2", 0, seed) {
            Ok(g) => g,
            Err(e) => return (0, vec![Violation { key: format!("encode-{codec}-{eng}-{k}-{r}"), case: Kv::new().with("eng", eng).with("codec", codec).with("k", k).with("r", r).with("data", "dense:2").with("soil", 0).with("seed", seed).with("order", "-").dump(), expected: "encode Ok".into(), observed: e }]),
        };
        let mut n = 0u64;
        let mut viols = Vec::new();
        // directed sets (locator exactly 0 / 65535 at a received position), each also with one surplus recovery shard
        let (special, _, _) = crate::c01::special_locator_sets(spec_is_high(codec_kind(codec), k, r), k, r, 3);
        let mut sets: Vec<(String, Vec<usize>, Vec<usize>)> = Vec::new();
        for (name, og, rg) in special {
            if let Some(extra) = (0..r).find(|j| !rg.contains(j)) {
                let mut rg2 = rg.clone();
                rg2.push(extra);
                rg2.sort();
                sets.push((format!("{name}-surplus"), og.clone(), rg2));
            }
            sets.push((name, og, rg));
        }
        sets.extend(crate::c01::families(k, r).into_iter().filter(|f| f.0.starts_with("scatter")));
        for (name, og, rg) in sets {
            let o_first: Vec<usize> = og.iter().copied().chain(rg.iter().map(|j| k + j)).collect();
            let r_first: Vec<usize> = rg.iter().rev().map(|j| k + j).chain(og.iter().copied()).collect();
            for order in [o_first, r_first] {
                n += 1;
                if viols.len() < 10 {
                    if let Err((exp, obs)) = check_order(&g, &order) {
                        viols.push(Violation { key: format!("{}-{}-k{}r{}-{}-{}", g.codec, g.eng, g.k, g.r, name, if order[0] < k { "ofirst" } else { "rfirst" }), case: g.kv().with("order", fmt_list(&order)).dump(), expected: exp, observed: obs });
                    }
                }
            }
        }
        (n, viols)
    });
    for (n, vs) in big_results {
        rep.traces += n;
        rep.evaluations += n;
        rep.states += n;
        rep.transitions += n;
        rep.distinct += n;
        rep.violations(vs);
    }

    let results: Vec<Result<Out, Violation>> = par_for(specs.len(), 1, |i| {
        let (eng, codec, k, r, perms) = &specs[i];
        let big = eng.ends_with("#big");
        let eng = &eng.trim_end_matches("#big").to_string();
        let data = if big { if (k + r) % 2 == 0 { "dense:4096" } else { "dense:8194" } } else if (k + r) % 2 == 0 { "dense:64" } else { "dense:66" };
        match build_group(eng, codec, *k, *r, data, soil, seed) {
            Ok(g) => Ok(explore_group(&g, *perms)),
            Err(e) => Err(Violation { key: format!("encode-{codec}-{eng}-{k}-{r}"), case: Kv::new().with("eng", eng).with("codec", codec).with("k", k).with("r", r).with("data", data).with("soil", soil).with("seed", seed).with("order", "-").dump(), expected: "encode Ok".into(), observed: e }),
        }
    });
    let mut not_closed = 0u64;
    for r in results {
        match r {
            Err(v) => rep.violation(v),
            Ok(o) => {
                rep.states += o.states;
                rep.transitions += o.transitions;
                rep.traces += o.decodes;
                rep.evaluations += o.decodes;
                rep.distinct += o.nontrivial;
                if !o.closed_exact {
                    not_closed += 1;
                }
                rep.violations(o.viols);
                if let Some(s) = o.sample {
                    if rep.samples.len() < 4 {
                        rep.sample(s);
                    }
                }
            }
        }
    }
    rep.extra("groups", J::i(specs.len()));
    rep.extra("groups_where_orders_reach_distinct_concrete_states", J::i(not_closed));
}
