//! C08 — supports() is exactly the documented envelope; constructors agree; corners really work.
//! Whole-domain enumeration of 0..=65537 squared for every supports() entry point.
use crate::core::*;
use crate::json::J;
use crate::kv::*;
use crate::report::*;
use crate::rt::*;
use crate::with_engine;
use reed_solomon_simd::engine::NoSimd;
use reed_solomon_simd::Error;

const LIM: usize = 65537;

/// supports() entry points: (name, fn)
fn entry_points() -> Vec<(&'static str, Kind, fn(usize, usize) -> bool)> {
    vec![
        ("ReedSolomonEncoder::supports", Kind::Rs, |k, r| reed_solomon_simd::ReedSolomonEncoder::supports(k, r)),
        ("ReedSolomonDecoder::supports", Kind::Rs, |k, r| reed_solomon_simd::ReedSolomonDecoder::supports(k, r)),
        ("DefaultRateEncoder::supports", Kind::Def, |k, r| AnyEnc::<NoSimd>::supports(Kind::Def, k, r)),
        ("DefaultRateDecoder::supports", Kind::Def, |k, r| AnyDec::<NoSimd>::supports(Kind::Def, k, r)),
        ("HighRateEncoder::supports", Kind::High, |k, r| AnyEnc::<NoSimd>::supports(Kind::High, k, r)),
        ("HighRateDecoder::supports", Kind::High, |k, r| AnyDec::<NoSimd>::supports(Kind::High, k, r)),
        ("LowRateEncoder::supports", Kind::Low, |k, r| AnyEnc::<NoSimd>::supports(Kind::Low, k, r)),
        ("LowRateDecoder::supports", Kind::Low, |k, r| AnyDec::<NoSimd>::supports(Kind::Low, k, r)),
    ]
}

/// Threshold form of the README predicate: for fixed k the predicate is monotone decreasing in r,
/// so it is `1 <= r <= max_r[k]` (max 0 = never).  Built by scanning n, cross-checked against the
/// direct predicate below.
fn thresholds(kind: Kind) -> Vec<usize> {
    (0..=LIM)
        .map(|k| {
            if k == 0 || k > 65536 {
                return 0;
            }
            let mut best = 0usize;
            for n in 0..=16 {
                let p = 1usize << n;
                // high side: r <= 2^n and k <= 65536 - 2^n
                if matches!(kind, Kind::High | Kind::Def | Kind::Rs) && k <= 65536 - p {
                    best = best.max(p);
                }
                // low side: k <= 2^n and r <= 65536 - 2^n
                if matches!(kind, Kind::Low | Kind::Def | Kind::Rs) && k <= p {
                    best = best.max(65536 - p);
                }
            }
            best
        })
        .collect()
}

fn corner_list() -> Vec<(usize, usize)> {
    let mut v = Vec::new();
    for n in 0..=16 {
        let p = 1usize << n;
        for (a, b) in [(p, 65536 - p), (65536 - p, p)] {
            for da in [-1i64, 0, 1] {
                for db in [-1i64, 0, 1] {
                    let (x, y) = (a as i64 + da, b as i64 + db);
                    if x >= 0 && y >= 0 {
                        v.push((x as usize, y as usize));
                    }
                }
            }
        }
    }
    v.extend([(1, 1), (0, 0), (0, 1), (1, 0), (65535, 1), (1, 65535), (65534, 2), (2, 65534), (65536, 1), (1, 65536), (32768, 32768), (32769, 32768), (32768, 32769), (60000, 4000), (60000, 5000)]);
    v.sort();
    v.dedup();
    v
}

/// validate/new/reset agreement for one (kind, k, r, bytes); returns number of calls compared
pub fn check_agree(kind: Kind, k: usize, r: usize, bytes: usize) -> Result<u64, (String, String)> {
    let acceptable = spec_validate(kind, k, r, bytes);
    let judge = |what: &str, got: Result<(), Error>| -> Result<(), (String, String)> {
        match (&got, acceptable.is_empty()) {
            (Ok(()), true) => Ok(()),
            (Err(e), false) if acceptable.contains(e) => Ok(()),
            _ => Err((format!("{what}({k},{r},{bytes}) -> {}", if acceptable.is_empty() { "Ok".to_string() } else { format!("Err in {acceptable:?}") }), format!("{got:?}"))),
        }
    };
    // never allocate for huge shard sizes: constructors are only called with small bytes here
    let mut n = 0u64;
    let eng = if kind == Kind::Rs { "default" } else { "nosimd" };
    let res = guard(|| -> Result<u64, (String, String)> {
        with_engine!(eng, E => {
            if let Some(v) = AnyEnc::<E>::validate(kind, k, r, bytes) { judge("encoder validate", v)?; n += 1; }
            if let Some(v) = AnyDec::<E>::validate(kind, k, r, bytes) { judge("decoder validate", v)?; n += 1; }
            let cost = spec_work_blocks(kind, true, k.clamp(1, 65536), r.clamp(1, 65536), bytes.max(2));
            if bytes <= 66 && k <= 65537 && r <= 65537 && cost <= 300_000 {
                judge("encoder new", AnyEnc::<E>::new(kind, k, r, bytes, None).map(|_| ()))?;
                judge("decoder new", AnyDec::<E>::new(kind, k, r, bytes, None).map(|_| ()))?;
                let mut e = AnyEnc::<E>::new(kind, 2, 3, 64, None).map_err(|e| ("live encoder".to_string(), format!("{e:?}")))?;
                judge("encoder reset", e.reset(k, r, bytes))?;
                let mut d = AnyDec::<E>::new(kind, 2, 3, 64, None).map_err(|e| ("live decoder".to_string(), format!("{e:?}")))?;
                judge("decoder reset", d.reset(k, r, bytes))?;
                n += 4;
            }
            Ok(n)
        })
    });
    match res {
        Ok(r) => r,
        Err(p) => Err(("no panic".into(), format!("PANIC: {p}"))),
    }
}

fn check_works(eng: &str, codec: &str, k: usize, r: usize, seed: u64) -> Result<u64, (String, String)> {
    let g = build_group(eng, codec, k, r, "dense:2", 0, seed).map_err(|e| ("encode Ok".to_string(), e))?;
    let mut n = 0;
    for (name, og, rg) in crate::c01::families(k, r).into_iter().filter(|(n, _, _)| n.starts_with("maxloss-first") || n == "every-other" || n.starts_with("maxloss-last")) {
        let m = g.decode(&og, &rg, None).map_err(|e| (format!("decode Ok ({name})"), e))?;
        g.check_restored(&og, &m).map_err(|e| (format!("restored == missing originals ({name})"), e))?;
        n += 1;
    }
    Ok(n)
}

fn run_case(kv: &Kv) -> Result<u64, (String, String)> {
    match kv.str("what") {
        "supports" => {
            let (k, r) = (kv.usize("k"), kv.usize("r"));
            let idx = kv.usize("entry");
            let (name, kind, f) = entry_points()[idx];
            let want = spec_supports(kind, k, r);
            let got = guard(|| f(k, r)).map_err(|p| ("no panic".to_string(), format!("PANIC: {p}")))?;
            if want == got {
                Ok(1)
            } else {
                Err((format!("{name}({k},{r}) == {want} (README envelope)"), format!("{got}")))
            }
        }
        "agree" => check_agree(Kind::parse(kv.str("kind")), kv.usize("k"), kv.usize("r"), kv.usize("bytes")),
        "works" => check_works(kv.str("eng"), kv.str("codec"), kv.usize("k"), kv.usize("r"), kv.u64("seed")),
        w => panic!("what {w}"),
    }
}

pub fn replay(_ctx: &Ctx, case: &str) -> Result<(), String> {
    let kv = Kv::parse(case)?;
    run_case(&kv).map(|_| ()).map_err(|(e, o)| format!("expected {e}; observed {o}"))
}

pub fn run(ctx: &Ctx, rep: &mut Report) {
    rep.rule = "whole square (k,r) in 0..=65537^2 for each of the 8 supports() entry points against the README predicate, plus extreme values up to usize::MAX; validate/new/reset agreement at all 17 staircase corners with their 8 neighbours x 7 shard sizes x 4 codec kinds; real round trips at every supported corner; non-trivial = pair within distance 1 of the envelope boundary (where an off-by-one would show) or an agreement/round-trip case; distinct by (entry point,k,r[,bytes])".into();
    rep.assume("README predicate transcribed as: k>=1, r>=1 and exists n in 0..=16 with one count <= 2^n and the other <= 65536-2^n (high: r is the 2^n side, low: k)");

    // ---- spec self check: threshold form == direct predicate on corners and a grid
    for kind in [Kind::High, Kind::Low, Kind::Def] {
        let th = thresholds(kind);
        for &(k, r) in corner_list().iter() {
            if k <= LIM {
                let t = r >= 1 && r <= th[k];
                if t != spec_supports(kind, k, r) {
                    rep.machinery_errors.push(format!("spec threshold form disagrees with predicate at {kind:?} ({k},{r})"));
                }
            }
        }
        for k in (0..=LIM).step_by(97) {
            for r in (0..=LIM).step_by(89) {
                let t = r >= 1 && r <= th[k];
                if t != spec_supports(kind, k, r) {
                    rep.machinery_errors.push(format!("spec threshold form disagrees with predicate at {kind:?} ({k},{r})"));
                }
            }
        }
    }

    // ---- whole square
    let eps = entry_points();
    let ths: Vec<Vec<usize>> = eps.iter().map(|(_, kind, _)| thresholds(*kind)).collect();
    let rows: Vec<(u64, u64, Vec<(usize, usize, usize)>)> = par_for(LIM + 1, 64, |k| {
        let mut evals = 0u64;
        let mut near = 0u64;
        let mut bad = Vec::new();
        for (ei, (_, _, f)) in eps.iter().enumerate() {
            let th = ths[ei][k];
            for r in 0..=LIM {
                let want = r >= 1 && r <= th;
                let got = f(k, r);
                evals += 1;
                if want != got && bad.len() < 4 {
                    bad.push((ei, k, r));
                }
            }
            near += if th > 0 { 3 } else { 0 };
        }
        (evals, near, bad)
    });
    for (evals, near, bad) in rows {
        rep.evaluations += evals;
        rep.distinct += near;
        for (ei, k, r) in bad {
            let kv = Kv::new().with("what", "supports").with("entry", ei).with("k", k).with("r", r);
            let want = spec_supports(eps[ei].1, k, r);
            rep.violation(Violation { key: format!("supports-{}-{}-{}", eps[ei].0.replace("::", "."), k, r), case: kv.dump(), expected: format!("{}({k},{r}) == {want} (README envelope)", eps[ei].0), observed: format!("{}", !want) });
        }
    }
    rep.states = ((LIM + 1) * (LIM + 1)) as u64;
    rep.transitions = rep.evaluations;
    rep.bound("square", J::s("0..=65537 x 0..=65537, 8 entry points, complete"));

    // ---- extremes
    let ext: Vec<usize> = vec![0, 1, 2, 65535, 65536, 65537, 1 << 31, 1 << 32, (1 << 32) + 1, (1 << 32) + 2, (1 << 32) + 65536, (1 << 48) + 1, 1 << 63, usize::MAX - 1, usize::MAX];
    let mut cases: Vec<Kv> = Vec::new();
    for (ei, _) in eps.iter().enumerate() {
        for &k in &ext {
            for &r in &ext {
                cases.push(Kv::new().with("what", "supports").with("entry", ei).with("k", fmt_usize(k)).with("r", fmt_usize(r)));
            }
        }
    }
    rep.bound("extremes", J::s(format!("{:?} squared", ext.iter().map(|x| fmt_usize(*x)).collect::<Vec<_>>())));

    // ---- agreement
    let sizes = [0usize, 1, 2, 3, 64, 65, 66];
    for kind in [Kind::Rs, Kind::Def, Kind::High, Kind::Low] {
        for &(k, r) in &corner_list() {
            for &b in &sizes {
                cases.push(Kv::new().with("what", "agree").with("kind", kind.name()).with("k", k).with("r", r).with("bytes", b));
            }
        }
        for &k in &[0usize, 1, 65536, usize::MAX] {
            for &r in &[0usize, 1, 65537, usize::MAX] {
                for &b in &[0usize, 1, 2, usize::MAX, usize::MAX - 1] {
                    cases.push(Kv::new().with("what", "agree").with("kind", kind.name()).with("k", fmt_usize(k)).with("r", fmt_usize(r)).with("bytes", fmt_usize(b)));
                }
            }
        }
    }
    rep.bound("agreement", J::s(format!("{} corner/neighbour configurations x shard sizes {sizes:?} x {{rs,def,high,low}}; extreme counts and sizes through validate only", corner_list().len())));

    // ---- really works
    let ns: Vec<u32> = if ctx.thorough() { (0..=15).collect() } else { vec![0, 1, 8, 12, 15] };
    let mut works: Vec<(usize, usize)> = vec![(65535, 1), (1, 65535), (32768, 32768)];
    if ctx.thorough() {
        works.push((65534, 2));
        works.push((2, 65534));
    }
    for &n in &ns {
        let p = 1usize << n;
        works.push((p, 65536 - p));
        works.push((65536 - p, p));
    }
    works.sort();
    works.dedup();
    let eng = if engines_fast().contains(&"avx2") { "avx2" } else { "nosimd" };
    for &(k, r) in &works {
        for codec in ["def", "high", "low"] {
            if spec_supports(Kind::parse(codec), k, r) {
                cases.push(Kv::new().with("what", "works").with("eng", eng).with("codec", codec).with("k", k).with("r", r).with("seed", ctx.seed));
            }
        }
        if spec_supports(Kind::Rs, k, r) && (ctx.thorough() || k + r == 65536 && k.is_power_of_two()) {
            cases.push(Kv::new().with("what", "works").with("eng", "default").with("codec", "rs").with("k", k).with("r", r).with("seed", ctx.seed));
        }
    }
    rep.bound("really_works", J::s(format!("{works:?} x supported codecs, 2-byte shards, patterns maxloss-first/maxloss-last/every-other")));

    cases.sort_by_key(|kv| if kv.str("what") == "works" { 0 } else { 1 });
    let results: Vec<Result<u64, (String, String)>> = par_for(cases.len(), 1, |i| match guard(|| run_case(&cases[i])) {
        Ok(r) => r,
        Err(p) => Err(("no panic".into(), format!("PANIC: {p}"))),
    });
    let mut n_agree = 0u64;
    let mut n_works = 0u64;
    for (kv, res) in cases.iter().zip(results) {
        rep.states += 1;
        match res {
            Ok(n) => {
                rep.evaluations += n;
                rep.transitions += n;
                match kv.str("what") {
                    "agree" => {
                        n_agree += n;
                        rep.distinct += 1;
                    }
                    "works" => {
                        n_works += n;
                        rep.traces += n;
                        rep.distinct += 1;
                    }
                    _ => {}
                }
            }
            Err((exp, obs)) => rep.violation(Violation {
                key: format!("{}-{}-{}-{}-{}", kv.str("what"), kv.opt("kind").or(kv.opt("codec")).or(kv.opt("entry")).unwrap_or(""), kv.str("k"), kv.str("r"), kv.opt("bytes").unwrap_or("")),
                case: kv.dump(),
                expected: exp,
                observed: obs,
            }),
        }
    }
    rep.extra("agreement_calls_compared", J::i(n_agree));
    rep.extra("corner_round_trips", J::i(n_works));
    rep.sample("what=supports entry=0..7 k=0..65537 r=0..65537 (whole square)");
    for i in [0, cases.len() / 2, cases.len() - 1] {
        rep.sample(cases[i].dump());
    }
}
