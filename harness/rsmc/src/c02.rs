//! C02 — recovery shards are the fixed scaled-Cauchy code: complete extraction of the
//! implementation's generator matrix and entry-by-entry comparison with the closed form
//! computed by gfref (own field arithmetic, no FFT), plus the ancestor crate as second oracle.
use crate::core::*;
use crate::with_engine;
use crate::json::J;
use crate::kv::*;
use crate::report::*;
use crate::rt::*;

/// mode basis: all k*r*16 products G[j][i]*2^b
fn check_basis(refm: &RefModel, eng: &str, high: bool, k: usize, r: usize, soil: u64) -> Result<u64, (String, String)> {
    let codec = if high { "high" } else { "low" };
    let (bytes, originals) = data_basis(k);
    let rec = real_encode(eng, codec, k, r, bytes, &originals, soil).map_err(|e| ("encode Ok".to_string(), e))?;
    if rec.len() != r {
        return Err((format!("{r} recovery shards"), format!("{} shards", rec.len())));
    }
    let g = refm.generator(high, k, r);
    let mut n = 0u64;
    for j in 0..r {
        if rec[j].len() != bytes {
            return Err((format!("recovery shard of {bytes} bytes"), format!("shard {j} has {} bytes", rec[j].len())));
        }
        let sym = gfref::shard_to_symbols(&rec[j]);
        for i in 0..k {
            for b in 0..16 {
                let want = refm.f.mul(g[j][i], 1 << b);
                let got = sym[16 * i + b];
                n += 1;
                if want != got {
                    return Err((
                        format!("recovery[{j}] slot {} = G[{j}][{i}] * 2^{b} = {want:#06x} (G[{j}][{i}] = {:#06x})", 16 * i + b, g[j][i]),
                        format!("{got:#06x}"),
                    ));
                }
            }
        }
    }
    Ok(n)
}

/// mode unit: unit vectors packed one original per slot; compares whole (big) matrices
fn check_unit(refm: &RefModel, eng: &str, high: bool, k: usize, r: usize, col_limit: usize) -> Result<u64, (String, String)> {
    let codec = if high { "high" } else { "low" };
    let slots = 1024usize.min(pow2ceil(k).max(32));
    let bytes = slots * 2;
    let (svals, wm) = refm.f.generator_consts(high, k, r);
    let mut n = 0u64;
    let cols = k.min(col_limit);
    let passes = cols.div_ceil(slots);
    for p in 0..passes {
        let lo = p * slots;
        let hi = ((p + 1) * slots).min(cols);
        let zero = vec![0u8; bytes];
        let originals: Vec<Vec<u8>> = (0..k)
            .map(|i| {
                if i >= lo && i < hi {
                    let mut sym = vec![0u16; slots];
                    sym[i - lo] = 1;
                    gfref::symbols_to_shard(&sym)
                } else {
                    zero.clone()
                }
            })
            .collect();
        let rec = real_encode(eng, codec, k, r, bytes, &originals, 0).map_err(|e| ("encode Ok".to_string(), e))?;
        drop(originals);
        if rec.len() != r {
            return Err((format!("{r} recovery shards"), format!("{} shards", rec.len())));
        }
        for j in 0..r {
            let sym = gfref::shard_to_symbols(&rec[j]);
            let row = refm.f.generator_row(high, k, r, j, &svals, wm);
            for i in lo..hi {
                n += 1;
                if sym[i - lo] != row[i] {
                    return Err((format!("recovery[{j}] slot {} = G[{j}][{i}] = {:#06x}", i - lo, row[i]), format!("{:#06x}", sym[i - lo])));
                }
            }
            // slots beyond the packed columns must stay zero
            for s in (hi - lo)..slots {
                if sym[s] != 0 {
                    return Err((format!("recovery[{j}] slot {s} = 0 (all inputs zero there)"), format!("{:#06x}", sym[s])));
                }
            }
        }
    }
    Ok(n)
}

/// mode rs16: byte-for-byte equality with reed-solomon-16 0.1.0 on 64-multiple sizes
fn check_rs16(eng: &str, k: usize, r: usize, bytes: usize, seed: u64) -> Result<u64, (String, String)> {
    let originals = data_dense(k, bytes, seed);
    let anc = reed_solomon_16::encode(k, r, &originals).map_err(|e| ("ancestor encode Ok".to_string(), format!("ancestor error {e:?}")));
    let anc = match anc {
        Ok(a) => a,
        Err(_) => return Ok(0), // ancestor does not support it: nothing to compare
    };
    let rec = real_encode(eng, "def", k, r, bytes, &originals, 0).map_err(|e| ("encode Ok".to_string(), e))?;
    if rec != anc {
        let j = (0..r).find(|&j| rec.get(j) != anc.get(j)).unwrap_or(0);
        return Err((format!("recovery[{j}] = {} (reed-solomon-16 0.1.0)", hex(&anc[j])), format!("{}", rec.get(j).map(|s| hex(s)).unwrap_or_default())));
    }
    Ok((r * bytes) as u64)
}

/// mode bytes: dense data of an arbitrary even shard size (short final block, long shards): every recovery
/// byte against G*data with the documented byte placement; two rounds on one (soiled) encoder
fn check_bytes(refm: &RefModel, eng: &str, high: bool, k: usize, r: usize, bytes: usize, soil: u64, seed: u64, shape: &str) -> Result<u64, (String, String)> {
    let kind = if high { Kind::High } else { Kind::Low };
    let mut n = 0u64;
    let res = guard(|| {
        with_engine!(eng, E => {
            // shape "special": the first round runs at a smaller original_count, then the encoder is reset to (k, r):
            // the second round's slots lie in a region that was used (and grown) before
            let k_first = if shape == "special" { (k + 1) / 2 } else { k };
            let mut enc = make_encoder::<E>(kind, k_first, r, bytes, if soil == 0 { None } else { Some(soil) }).map_err(|e| format!("Err({e:?})"))?;
            let mut out: Vec<(Vec<Vec<u8>>, Vec<Vec<u8>>)> = Vec::new();
            for round in 0..2u64 {
                let k = if round == 0 { k_first } else { k };
                if round == 1 && k != k_first {
                    enc.reset(k, r, bytes).map_err(|e| format!("reset: Err({e:?})"))?;
                }
                let mut originals = data_dense(k, bytes, seed ^ (round * 0x9e37) ^ bytes as u64);
                // data shapes besides dense: "same" = k identical shards, "unit<i>" = only original i non-zero
                if shape == "same" {
                    let first = originals[0].clone();
                    for o in originals.iter_mut() {
                        o.copy_from_slice(&first);
                    }
                } else if shape == "special" {
                    // particular symbol values: a zero shard, two equal shards, all 0xFFFF, equal halves, a cycle of
                    // {0,1,0xFFFF,0x00FF,0xFF00,0x8000,0x0100,0x0101,0xFFFE}; second round: the same shards rotated by one
                    originals = data_special(k, bytes);
                    if round == 1 {
                        originals.rotate_left(1.min(k - 1));
                    }
                } else if let Some(i) = shape.strip_prefix("unit") {
                    let i: usize = i.parse().expect("unit index");
                    for (j, o) in originals.iter_mut().enumerate() {
                        if j != i {
                            o.fill(0);
                        }
                    }
                }
                for o in &originals {
                    enc.add(o).map_err(|e| format!("Err({e:?})"))?;
                }
                let rec: Vec<Vec<u8>> = enc.encode().map_err(|e| format!("Err({e:?})"))?.recovery_iter().map(|s| s.to_vec()).collect();
                out.push((originals, rec));
            }
            Ok::<_, String>(out)
        })
    });
    let rounds = match res {
        Ok(Ok(v)) => v,
        Ok(Err(e)) => return Err(("encode Ok".into(), e)),
        Err(p) => return Err(("no panic".into(), format!("PANIC: {p}"))),
    };
    for (ri, (originals, rec)) in rounds.iter().enumerate() {
        let want = refm.encode(high, originals.len(), r, originals);
        if rec.len() != r {
            return Err((format!("{r} recovery shards"), format!("{}", rec.len())));
        }
        for j in 0..r {
            if rec[j] != want[j] {
                let pos = rec[j].iter().zip(&want[j]).position(|(a, b)| a != b);
                return Err((format!("round {ri}: recovery[{j}] of {bytes}-byte shards = G*data (fnv {:016x})", fnv(&want[j])), format!("fnv {:016x}, length {}, first difference at byte {pos:?}", fnv(&rec[j]), rec[j].len())));
            }
            n += bytes as u64 / 2;
        }
    }
    Ok(n)
}

fn run_case(refm: &RefModel, kv: &Kv) -> Result<u64, (String, String)> {
    let eng = kv.str("eng");
    let (k, r) = (kv.usize("k"), kv.usize("r"));
    match kv.str("mode") {
        "basis" => check_basis(refm, eng, kv.str("rate") == "high", k, r, kv.u64("soil")),
        "unit" => check_unit(refm, eng, kv.str("rate") == "high", k, r, kv.usize("cols")),
        "bytes" => check_bytes(refm, eng, kv.str("rate") == "high", k, r, kv.usize("bytes"), kv.u64("soil"), kv.u64("seed"), kv.opt("shape").unwrap_or("dense")),
        "rs16" => check_rs16(eng, k, r, kv.usize("bytes"), kv.u64("seed")),
        m => panic!("mode {m}"),
    }
}

pub fn replay(_ctx: &Ctx, case: &str) -> Result<(), String> {
    let kv = Kv::parse(case)?;
    let refm = RefModel::new();
    run_case(&refm, &kv).map(|_| ()).map_err(|(e, o)| format!("expected {e}; observed {o}"))
}

pub fn run(ctx: &Ctx, rep: &mut Report) {
    let refm = RefModel::new();
    let seed = ctx.seed;
    let soil = seed | 1;
    rep.rule = "case = (mode, engine, rate, (k,r)); mode bytes: every recovery byte of dense shards of arbitrary even size (short final block, long shards; two rounds on one encoder) against G*data with the documented byte placement; mode basis: all k*r*16 products G[j][i]*2^b read back from one encode of basis-in-slots data; mode unit: whole generator matrices of large configurations, one column per slot; mode rs16: byte equality with reed-solomon-16 0.1.0; non-trivial = configuration with more than one chunk on the transformed side or k,r >= 2; distinct by (mode,engine,rate,k,r)".into();
    rep.assume("oracle = closed form of the property statement evaluated by gfref (carry-less multiplication from 0x1002D and the Cantor basis); its MDS property is checked by brute force for small (k,r) in this run");

    // oracle self-validation
    let n_field = refm.f.self_check(ctx.thorough());
    let n_code = refm.f.self_check_code();
    let mut n_mds = 0u64;
    let mds_max = if ctx.thorough() { 6 } else { 5 };
    for k in 1..=mds_max {
        for r in 1..=mds_max {
            for high in [true, false] {
                match refm.f.check_mds(&refm.generator(high, k, r)) {
                    Ok(n) => n_mds += n,
                    Err(e) => rep.machinery_errors.push(format!("reference generator not MDS for ({k},{r}) high={high}: {e}")),
                }
            }
        }
    }
    rep.extra("oracle_field_checks", J::i(n_field));
    rep.extra("oracle_code_checks", J::i(n_code));
    rep.extra("oracle_mds_minors_checked", J::i(n_mds));

    let mut cases: Vec<Kv> = Vec::new();
    let (fast_max, all_max) = if ctx.thorough() { (130usize, 40usize) } else { (64, 16) };
    for k in 1..=fast_max {
        for r in 1..=fast_max {
            for rate in ["high", "low"] {
                let engs: Vec<&str> = if k <= all_max && r <= all_max { engines_all() } else { engines_fast() };
                for eng in engs {
                    if eng == "default" && (k > 12 || r > 12) {
                        continue; // DefaultEngine = Avx2 here; covered by avx2 itself beyond the small set
                    }
                    cases.push(Kv::new().with("mode", "basis").with("eng", eng).with("rate", rate).with("k", k).with("r", r).with("soil", if (k + r) % 2 == 0 { soil } else { 0 }));
                }
            }
        }
    }
    rep.bound("basis_cfg", J::s(format!("[1..{fast_max}]^2 x {{high,low}} on {:?}; [1..{all_max}]^2 on all engines", engines_fast())));
    // rs16
    let rs_max = if ctx.thorough() { 80 } else { 40 };
    for k in 1..=rs_max {
        for r in 1..=rs_max {
            for bytes in [64usize, 192] {
                if bytes == 192 && (k + r) % 3 != 0 {
                    continue;
                }
                cases.push(Kv::new().with("mode", "rs16").with("eng", "default").with("k", k).with("r", r).with("bytes", bytes).with("seed", seed));
            }
        }
    }
    rep.bound("rs16_cfg", J::s(format!("[1..{rs_max}]^2, 64-byte shards (192 bytes when (k+r)%3==0), default engine, dense data")));
    // bytes: shard sizes with a short final block and long shards
    let bmax = if ctx.thorough() { 9 } else { 6 };
    let small_sizes: Vec<usize> = if ctx.thorough() { vec![2, 30, 34, 36, 62, 66, 98, 100, 126, 130, 190, 194, 254] } else { vec![2, 34, 62, 100, 126, 194] };
    let long_sizes: Vec<usize> = if ctx.thorough() { vec![4096 + 64, 4096 + 66, 8192 + 64, 8192 + 126, 16384 + 64 + 2, 65536 + 128 + 34] } else { vec![4096 + 66, 8192 + 126, 16384 + 64 + 2] };
    for k in 1..=bmax {
        for r in 1..=bmax {
            for rate in ["high", "low"] {
                for (bi, &bytes) in small_sizes.iter().enumerate() {
                    for eng in engines_all() {
                        if eng == "default" && (k + r + bi) % 3 != 0 {
                            continue;
                        }
                        cases.push(Kv::new().with("mode", "bytes").with("eng", eng).with("rate", rate).with("k", k).with("r", r).with("bytes", bytes).with("soil", if (k + r + bi) % 2 == 0 { soil } else { 0 }).with("seed", seed));
                    }
                }
            }
        }
    }
    // sparse and repetitive data (short cuts that depend on the data): identical shards, one non-zero shard
    for k in 1..=bmax.min(6) {
        for r in 1..=bmax.min(6) {
            for rate in ["high", "low"] {
                for eng in engines_all() {
                    if eng == "default" {
                        continue;
                    }
                    let mut shapes: Vec<String> = vec!["same".into()];
                    shapes.extend((0..k).map(|i| format!("unit{i}")));
                    for (si, shape) in shapes.iter().enumerate() {
                        let bytes = [64usize, 130, 192][(k + r + si) % 3];
                        cases.push(Kv::new().with("mode", "bytes").with("eng", eng).with("rate", rate).with("k", k).with("r", r).with("bytes", bytes).with("soil", 0).with("seed", seed).with("shape", shape.as_str()));
                    }
                }
            }
        }
    }
    let special_cfgs: Vec<(usize, usize)> = (1..=8usize).flat_map(|k| (1..=8usize).map(move |r| (k, r))).chain([(20, 12), (12, 20), (33, 31), (70, 40), (40, 70), (9, 130), (130, 9)]).collect();
    for (ci, &(k, r)) in special_cfgs.iter().enumerate() {
        for rate in ["high", "low"] {
            for eng in engines_all() {
                if eng == "default" || (eng == "naive" || eng == "neonemu") && k + r > 16 && !ctx.thorough() {
                    continue;
                }
                let sizes: Vec<usize> = if ctx.thorough() { vec![64, 66, 130, 192, 2] } else { vec![[64usize, 130, 192, 66][ci % 4]] };
                for bytes in sizes {
                    cases.push(Kv::new().with("mode", "bytes").with("eng", eng).with("rate", rate).with("k", k).with("r", r).with("bytes", bytes).with("soil", if ci % 2 == 0 { soil } else { 0 }).with("seed", seed).with("shape", "special"));
                }
            }
        }
    }
    rep.bound("bytes_special_values", J::s("[1..8]^2 + (20,12) (12,20) (33,31) (70,40) (40,70) (9,130) (130,9) x {high,low} x every engine: data made of the symbol values a data-dependent short cut would single out (an all-zero shard, two equal shards, an all-0xFFFF shard, equal low/high halves, a cycle of 0x0000 0x0001 0xFFFF 0x00FF 0xFF00 0x8000 0x0100 0x0101 0xFFFE), two rounds - the first at half the original_count, then reset to the full configuration -, every recovery byte"));
    rep.bound("bytes_shapes", J::s("[1..6]^2 x {high,low} x every engine: k identical shards and every single-non-zero-shard data set (shard sizes 64/130/192 in rotation)"));
    for (k, r) in [(1usize, 1usize), (2, 3), (3, 2), (5, 3), (3, 5), (4, 4), (17, 5), (5, 17)] {
        for rate in ["high", "low"] {
            for &bytes in &long_sizes {
                for eng in engines_all() {
                    if (eng == "naive" || eng == "neonemu") && k + r > 8 {
                        continue;
                    }
                    cases.push(Kv::new().with("mode", "bytes").with("eng", eng).with("rate", rate).with("k", k).with("r", r).with("bytes", bytes).with("soil", soil).with("seed", seed));
                }
            }
        }
    }
    rep.bound("bytes_cfg", J::s(format!("[1..{bmax}]^2 x {{high,low}} x every engine x shard sizes {small_sizes:?}; 8 configurations x every engine x long shards {long_sizes:?}; two rounds per encoder, dense data, every recovery byte")));
    // unit (large)
    let big: Vec<(usize, usize, usize)> = if ctx.thorough() {
        vec![
            (255, 1, usize::MAX), (257, 255, usize::MAX), (1000, 100, usize::MAX), (100, 1000, usize::MAX), (4097, 4095, usize::MAX),
            (32768, 32768, 2048), (61440, 4096, usize::MAX), (4096, 61440, usize::MAX), (65535, 1, usize::MAX), (1, 65535, usize::MAX), (65534, 2, usize::MAX), (2, 65534, usize::MAX),
        ]
    } else {
        vec![(255, 1, usize::MAX), (257, 255, usize::MAX), (1000, 100, usize::MAX), (100, 1000, usize::MAX), (65535, 1, 1024), (1, 65535, usize::MAX), (4097, 4095, 1024), (10000, 10000, 1024), (1000, 20000, usize::MAX), (20000, 1000, 1024)]
    };
    let big: Vec<(usize, usize, usize)> = if ctx.thorough() { big.into_iter().chain([(10000, 10000, 4096), (1000, 20000, usize::MAX), (20000, 1000, 4096), (16385, 3, usize::MAX), (3, 16385, usize::MAX)]).collect() } else { big };
    for &(k, r, cols) in &big {
        for rate in ["high", "low"] {
            let kind = Kind::parse(rate);
            if !spec_supports(kind, k, r) {
                continue;
            }
            let eng = if engines_fast().contains(&"avx2") { "avx2" } else { "nosimd" };
            cases.push(Kv::new().with("mode", "unit").with("eng", eng).with("rate", rate).with("k", k).with("r", r).with("cols", fmt_usize(cols)));
        }
    }
    rep.bound("unit_cfg", J::s(format!("{big:?} (k, r, columns compared)")));
    // grid around every chunk-size boundary: whole matrices through unit vectors
    let grid: Vec<usize> = if ctx.thorough() {
        vec![1, 2, 3, 5, 8, 9, 16, 17, 31, 32, 33, 63, 64, 65, 100, 127, 128, 129, 255, 256, 257, 300, 511, 512, 513, 1000, 1023, 1024, 1025, 2047, 2048, 2049, 4095, 4096, 4097, 8191, 8192, 8193]
    } else {
        vec![1, 3, 8, 17, 32, 33, 65, 127, 128, 129, 255, 256, 257, 513, 1024, 1025, 2049, 4096, 4097]
    };
    let mut n_grid = 0;
    for (gi, &k) in grid.iter().enumerate() {
        for (gj, &r) in grid.iter().enumerate() {
            if k <= fast_max && r <= fast_max {
                continue;
            }
            for rate in ["high", "low"] {
                if !spec_supports(Kind::parse(rate), k, r) {
                    continue;
                }
                let eng = if (gi + gj) % 3 == 0 || !engines_fast().contains(&"avx2") { "nosimd" } else { "avx2" };
                cases.push(Kv::new().with("mode", "unit").with("eng", eng).with("rate", rate).with("k", k).with("r", r).with("cols", "MAX"));
                n_grid += 1;
            }
        }
    }
    rep.bound("unit_grid", J::s(format!("{grid:?} squared x {{high,low}}: {n_grid} whole matrices")));

    // big unit cases first so that they overlap with the many small ones
    cases.sort_by_key(|kv| if kv.str("mode") == "unit" { 0 } else { 1 });
    let results: Vec<Result<u64, (String, String)>> = par_for(cases.len(), 1, |i| match guard(|| run_case(&refm, &cases[i])) {
        Ok(r) => r,
        Err(p) => Err(("no panic".into(), format!("PANIC: {p}"))),
    });
    for (kv, res) in cases.iter().zip(results) {
        rep.states += 1;
        rep.traces += 1;
        let (k, r) = (kv.usize("k"), kv.usize("r"));
        if k >= 2 && r >= 2 {
            rep.distinct += 1;
        }
        match res {
            Ok(n) => {
                rep.evaluations += n;
                rep.transitions += (k + 1) as u64;
            }
            Err((exp, obs)) => rep.violation(Violation {
                key: format!("{}-{}-{}-k{}r{}{}", kv.str("mode"), kv.opt("rate").unwrap_or("def"), kv.str("eng"), k, r, format!("{}{}", kv.opt("bytes").map(|b| format!("-b{b}")).unwrap_or_default(), kv.opt("shape").map(|b| format!("-{b}")).unwrap_or_default())),
                case: kv.dump(),
                expected: exp,
                observed: obs,
            }),
        }
    }
    for i in [0, cases.len() / 2, cases.len() - 1] {
        rep.sample(cases[i].dump());
    }
    rep.extra("matrix_entries_compared", J::i(rep.evaluations));
}
