//! C12 — result accessors expose exactly the produced shards; drop starts a new round.
use std::collections::BTreeSet;

use crate::core::*;
use crate::json::J;
use crate::kv::*;
use crate::report::*;
use crate::rt::*;
use crate::with_engine;
use reed_solomon_simd::Error;

type V = (String, String);

fn soil_opt(soil: u64) -> Option<u64> {
    if soil == 0 {
        None
    } else {
        Some(soil)
    }
}

fn index_probe(count: usize, base: usize) -> Vec<usize> {
    let mut v: Vec<usize> = (0..count + 3).collect();
    v.extend([usize::MAX - base, (usize::MAX - base).wrapping_add(1), usize::MAX - 1, usize::MAX, usize::MAX / 2, 65535, 65536]);
    // aliases of valid indexes under truncation to 8, 16, 32 or 48 bits (of the index itself and of base + index)
    for w in [8u32, 16, 32, 48] {
        let t = 1usize << w;
        v.extend([t, t + 1, t + count.saturating_sub(1), t + count, t.wrapping_sub(base), t.wrapping_sub(base) + 1, 2 * t + 1]);
    }
    v.sort();
    v.dedup();
    v
}

/// encoder result accessors for one configuration (want = reference recovery)
fn check_enc_accessors(eng: &str, codec: &str, k: usize, r: usize, bytes: usize, seed: u64, refm: &RefModel) -> Result<u64, V> {
    let kind = codec_kind(codec);
    let originals = data_dense(k, bytes, seed);
    let want = refm.encode(spec_is_high(kind, k, r), k, r, &originals);
    let res = guard(|| -> Result<u64, V> {
        with_engine!(eng, E => {
            let mut enc = make_encoder::<E>(kind, k, r, bytes, Some(seed | 1)).map_err(|e| ("new Ok".to_string(), format!("{e:?}")))?;
            let mut n = 0u64;
            for round in 0..2 {
                for o in &originals { enc.add(o).map_err(|e| (format!("round {round}: add Ok"), format!("{e:?}")))?; }
                let result = enc.encode().map_err(|e| (format!("round {round}: encode Ok"), format!("{e:?}")))?;
                for i in index_probe(r, 0) {
                    let got = result.recovery(i);
                    n += 1;
                    if i < r {
                        match got {
                            Some(s) if s == want[i].as_slice() => {}
                            other => return Err((format!("recovery({}) == Some(reference shard of {bytes} bytes)", fmt_usize(i)), format!("{:?}", other.map(|s| (s.len(), hex(s)))))),
                        }
                    } else if got.is_some() {
                        return Err((format!("recovery({}) == None (recovery_count = {r})", fmt_usize(i)), format!("Some({} bytes)", got.unwrap().len())));
                    }
                }
                let mut it = result.recovery_iter();
                for i in 0..r {
                    match it.next() {
                        Some(s) if s == want[i].as_slice() => {}
                        other => return Err((format!("iterator item {i} == recovery({i})"), format!("{:?}", other.map(|s| (s.len(), hex(s)))))),
                    }
                    n += 1;
                }
                for extra in 0..4 {
                    if let Some(s) = it.next() {
                        return Err((format!("iterator returns None after {r} items (call {extra} after exhaustion)"), format!("Some({} bytes)", s.len())));
                    }
                    n += 1;
                }
                // a second iterator is independent of the first
                if result.recovery_iter().count() != r {
                    return Err((format!("second iterator yields {r} items"), "different count".into()));
                }
                if r <= 12 && round == 0 {
                    let want_items: Vec<Vec<u8>> = want.clone();
                    n += check_iter_protocol("recovery_iter", || result.recovery_iter(), |s: &[u8]| s.to_vec(), &want_items)?;
                }
                drop(result);
            }
            Ok(n)
        })
    });
    match res {
        Ok(r) => r,
        Err(p) => Err(("no panic".into(), format!("PANIC: {p}"))),
    }
}

/// Iterator protocol of a result iterator: whatever std adaptor a caller uses (nth, skip, step_by, count,
/// last, size_hint) after consuming any prefix, the items are the expected ones in order.
fn check_iter_protocol<A, T: PartialEq + Clone + std::fmt::Debug, I: Iterator<Item = A>>(what: &str, mk: impl Fn() -> I, proj: impl Fn(A) -> T + Copy, want: &[T]) -> Result<u64, V> {
    let len = want.len();
    let mut n = 0u64;
    for j in 0..=len {
        let advance = |it: &mut I| {
            for _ in 0..j {
                it.next();
            }
        };
        // size_hint must bracket the truth at every point
        let mut it = mk();
        advance(&mut it);
        let (lo, hi) = it.size_hint();
        if lo > len - j || hi.map(|h| h < len - j).unwrap_or(false) {
            return Err((format!("{what}: size_hint after {j} items brackets the {} remaining items", len - j), format!("({lo}, {hi:?})")));
        }
        let rest: Vec<T> = it.take(len + 4).map(proj).collect();
        if rest != want[j..] {
            return Err((format!("{what}: collect() after {j} items yields the remaining {} items", len - j), format!("{} items", rest.len())));
        }
        let mut it = mk();
        advance(&mut it);
        if it.count() != len - j {
            return Err((format!("{what}: count() after {j} items == {}", len - j), "different".into()));
        }
        let mut it = mk();
        advance(&mut it);
        if it.last().map(proj) != want[j..].last().cloned() {
            return Err((format!("{what}: last() after {j} items == the last item"), "different".into()));
        }
        for skip in 0..=(len - j + 1) {
            let mut it = mk();
            advance(&mut it);
            let got = it.nth(skip).map(proj);
            if got != want.get(j + skip).cloned() {
                return Err((format!("{what}: nth({skip}) after {j} items == item {} ({:?})", j + skip, want.get(j + skip).map(|_| "Some").unwrap_or("None")), format!("{:?}", got.map(|g| format!("{g:?}").chars().take(60).collect::<String>()))));
            }
            let nxt = it.next().map(proj);
            if nxt != want.get(j + skip + 1).cloned() {
                return Err((format!("{what}: next() after {j} items and nth({skip}) == item {}", j + skip + 1), format!("{:?}", nxt.map(|g| format!("{g:?}").chars().take(60).collect::<String>()))));
            }
            let mut it = mk();
            advance(&mut it);
            // (bounded: a broken nth() can make an adaptor chain endless)
            let got: Vec<T> = it.skip(skip).step_by(2).take(len + 4).map(proj).collect();
            let exp: Vec<T> = want.iter().skip(j + skip).step_by(2).cloned().collect();
            if got != exp {
                return Err((format!("{what}: skip({skip}).step_by(2) after {j} items yields items {}, {}, ..", j + skip, j + skip + 2), format!("{} items (expected {})", got.len(), exp.len())));
            }
            n += 3;
        }
        n += 4;
    }
    Ok(n)
}

/// decoder result accessors in the state where shards `og`/`rg` were given
fn check_dec_accessors(g: &Group, og: &[usize], rg: &[usize], recovery_first: bool) -> Result<u64, V> {
    let kind = codec_kind(&g.codec);
    let given: BTreeSet<usize> = og.iter().copied().collect();
    let hi = spec_is_high(kind, g.k, g.r);
    let obase = if hi { pow2ceil(g.r) } else { 0 };
    let res = guard(|| -> Result<u64, V> {
        with_engine!(g.eng.as_str(), E => {
            let mut dec = make_decoder::<E>(kind, g.k, g.r, g.bytes, soil_opt(g.soil)).map_err(|e| ("new Ok".to_string(), format!("{e:?}")))?;
            if recovery_first {
                // surplus sets: the originals arrive when enough shards are already in
                for &j in rg.iter().rev() { dec.add_recovery(j, &g.recovery[j]).map_err(|e| ("add Ok".to_string(), format!("{e:?}")))?; }
                for &i in og.iter().rev() { dec.add_original(i, &g.originals[i]).map_err(|e| ("add Ok".to_string(), format!("{e:?}")))?; }
            } else {
                for &i in og { dec.add_original(i, &g.originals[i]).map_err(|e| ("add Ok".to_string(), format!("{e:?}")))?; }
                for &j in rg { dec.add_recovery(j, &g.recovery[j]).map_err(|e| ("add Ok".to_string(), format!("{e:?}")))?; }
            }
            let result = dec.decode().map_err(|e| ("decode Ok".to_string(), format!("{e:?}")))?;
            let mut n = 0u64;
            for i in index_probe(g.k, obase) {
                let got = result.restored_original(i);
                n += 1;
                if i < g.k && !given.contains(&i) {
                    match got {
                        Some(s) if s == g.originals[i].as_slice() => {}
                        other => return Err((format!("restored_original({}) == Some(original {i})", fmt_usize(i)), format!("{:?}", other.map(|s| (s.len(), hex(s)))))),
                    }
                } else if got.is_some() {
                    return Err((format!("restored_original({}) == None ({})", fmt_usize(i), if i < g.k { "that original was given" } else { "index out of range" }), format!("Some({} bytes)", got.unwrap().len())));
                }
            }
            let want: Vec<usize> = (0..g.k).filter(|i| !given.contains(i)).collect();
            let mut it = result.restored_original_iter();
            for &i in &want {
                match it.next() {
                    Some((idx, s)) if idx == i && s == g.originals[i].as_slice() => {}
                    other => return Err((format!("iterator yields (index {i}, original {i}) next (ascending order, missing originals only)"), format!("{:?}", other.map(|(idx, s)| (idx, s.len(), hex(s)))))),
                }
                n += 1;
            }
            for extra in 0..4 {
                if let Some((idx, _)) = it.next() {
                    return Err((format!("iterator returns None forever after {} items (call {extra} after exhaustion)", want.len()), format!("Some(index {idx})")));
                }
                n += 1;
            }
            if want.len() <= 8 {
                let want_items: Vec<(usize, Vec<u8>)> = want.iter().map(|&i| (i, g.originals[i].clone())).collect();
                n += check_iter_protocol("restored_original_iter", || result.restored_original_iter(), |(i, s): (usize, &[u8])| (i, s.to_vec()), &want_items)?;
            }
            Ok(n)
        })
    });
    match res {
        Ok(r) => r,
        Err(p) => Err(("no panic".into(), format!("PANIC: {p}"))),
    }
}

/// consecutive rounds on one decoder separated only by dropping the result
fn check_rounds(g: &Group, g2: &Group, sets: &[u32]) -> Result<u64, V> {
    let kind = codec_kind(&g.codec);
    let res = guard(|| -> Result<u64, V> {
        with_engine!(g.eng.as_str(), E => {
            let mut dec = make_decoder::<E>(kind, g.k, g.r, g.bytes, soil_opt(g.soil)).map_err(|e| ("new Ok".to_string(), format!("{e:?}")))?;
            let mut n = 0u64;
            for (round, &mask) in sets.iter().enumerate() {
                let src = if round % 2 == 0 { g } else { g2 };
                let (og, rg) = split_mask(g.k, g.r, mask);
                for &i in &og {
                    dec.add_original(i, &src.originals[i]).map_err(|e: Error| (format!("round {round}: add_original_shard({i}) Ok (previous result was dropped)"), format!("Err({e:?})")))?;
                }
                for &j in &rg {
                    dec.add_recovery(j, &src.recovery[j]).map_err(|e: Error| (format!("round {round}: add_recovery_shard({j}) Ok (previous result was dropped)"), format!("Err({e:?})")))?;
                }
                let result = dec.decode().map_err(|e| (format!("round {round}: decode Ok"), format!("Err({e:?})")))?;
                let m: std::collections::BTreeMap<usize, Vec<u8>> = result.restored_original_iter().map(|(i, s)| (i, s.to_vec())).collect();
                drop(result);
                src.check_restored(&og, &m).map_err(|e| (format!("round {round}: restored == missing originals of this round"), e))?;
                n += 1;
            }
            Ok(n)
        })
    });
    match res {
        Ok(r) => r,
        Err(p) => Err(("no panic".into(), format!("PANIC: {p}"))),
    }
}

/// consecutive rounds with explicit received-sets (large configurations)
fn check_big_rounds(g: &Group, g2: &Group, pats: &[(Vec<usize>, Vec<usize>)]) -> Result<u64, V> {
    let kind = codec_kind(&g.codec);
    let res = guard(|| -> Result<u64, V> {
        with_engine!(g.eng.as_str(), E => {
            let mut dec = make_decoder::<E>(kind, g.k, g.r, g.bytes, soil_opt(g.soil)).map_err(|e| ("new Ok".to_string(), format!("{e:?}")))?;
            for (round, (og, rg)) in pats.iter().enumerate() {
                let src = if round % 2 == 0 { g } else { g2 };
                for &i in og {
                    dec.add_original(i, &src.originals[i]).map_err(|e: Error| (format!("round {round}: add_original_shard({i}) Ok (previous result was dropped)"), format!("Err({e:?})")))?;
                }
                for &j in rg {
                    dec.add_recovery(j, &src.recovery[j]).map_err(|e: Error| (format!("round {round}: add_recovery_shard({j}) Ok (previous result was dropped)"), format!("Err({e:?})")))?;
                }
                let result = dec.decode().map_err(|e| (format!("round {round}: decode Ok"), format!("Err({e:?})")))?;
                let m: std::collections::BTreeMap<usize, Vec<u8>> = result.restored_original_iter().map(|(i, s)| (i, s.to_vec())).collect();
                // accessor agrees with the iterator on the edges
                for i in [0usize, 1, g.k / 2, g.k - 1] {
                    if result.restored_original(i).map(|s| s.to_vec()) != m.get(&i).cloned() {
                        return Err((format!("round {round}: restored_original({i}) agrees with the iterator"), "disagrees".into()));
                    }
                }
                drop(result);
                src.check_restored(og, &m).map_err(|e| (format!("round {round}: restored == missing originals of this round"), e))?;
            }
            Ok(pats.len() as u64)
        })
    });
    match res {
        Ok(r) => r,
        Err(p) => Err(("no panic".into(), format!("PANIC: {p}"))),
    }
}

fn big_patterns(k: usize, r: usize) -> Vec<(Vec<usize>, Vec<usize>)> {
    let m = k.min(r);
    let mut v: Vec<(Vec<usize>, Vec<usize>)> = Vec::new();
    // everything except original 0 (touches the highest positions of both groups)
    v.push(((1..k).collect(), (0..r).collect()));
    // exactly k without the highest indexes
    v.push(((0..k - m).collect(), (0..m).collect()));
    // exactly k with the highest recovery indexes, lowest originals missing
    v.push(((m..k).collect(), (r - m..r).collect()));
    // the first pattern again, then the second: every pattern follows every other at least once
    v.push(((1..k).collect(), (0..r).collect()));
    v.push(((m..k).collect(), (r - m..r).collect()));
    v.push(((0..k - m).collect(), (0..m).collect()));
    v
}

/// consecutive rounds on one encoder
fn check_enc_rounds(eng: &str, codec: &str, k: usize, r: usize, bytes: usize, rounds: usize, seed: u64, refm: &RefModel) -> Result<u64, V> {
    let kind = codec_kind(codec);
    let res = guard(|| -> Result<u64, V> {
        with_engine!(eng, E => {
            let mut enc = make_encoder::<E>(kind, k, r, bytes, Some(seed | 1)).map_err(|e| ("new Ok".to_string(), format!("{e:?}")))?;
            for round in 0..rounds {
                let originals = data_dense(k, bytes, seed ^ (round as u64 * 77));
                let want = refm.encode(spec_is_high(kind, k, r), k, r, &originals);
                for (i, o) in originals.iter().enumerate() {
                    enc.add(o).map_err(|e| (format!("round {round}: add_original_shard #{i} Ok (previous result was dropped)"), format!("Err({e:?})")))?;
                }
                let result = enc.encode().map_err(|e| (format!("round {round}: encode Ok"), format!("Err({e:?})")))?;
                let got: Vec<Vec<u8>> = result.recovery_iter().map(|s| s.to_vec()).collect();
                if got != want {
                    return Err((format!("round {round}: recovery == reference for this round's data"), "differs".into()));
                }
            }
            Ok(rounds as u64)
        })
    });
    match res {
        Ok(r) => r,
        Err(p) => Err(("no panic".into(), format!("PANIC: {p}"))),
    }
}

fn run_case(refm: &RefModel, kv: &Kv) -> Result<u64, V> {
    match kv.str("what") {
        "enc" => check_enc_accessors(kv.str("eng"), kv.str("codec"), kv.usize("k"), kv.usize("r"), kv.usize("bytes"), kv.u64("seed"), refm),
        "encrounds" => check_enc_rounds(kv.str("eng"), kv.str("codec"), kv.usize("k"), kv.usize("r"), kv.usize("bytes"), kv.usize("rounds"), kv.u64("seed"), refm),
        "dec" => {
            let g = Group::from_kv(kv).map_err(|e| ("encode Ok".to_string(), e))?;
            check_dec_accessors(&g, &parse_ranges(kv.str("og")), &parse_ranges(kv.str("rg")), kv.opt("order") == Some("rf"))
        }
        "bigrounds" => {
            let g = Group::from_kv(kv).map_err(|e| ("encode Ok".to_string(), e))?;
            let g2 = build_group(&g.eng, &g.codec, g.k, g.r, &g.data.replace("dense:", "dense2:"), g.soil, g.seed).map_err(|e| ("encode Ok".to_string(), e))?;
            check_big_rounds(&g, &g2, &big_patterns(g.k, g.r))
        }
        "rounds" => {
            let g = Group::from_kv(kv).map_err(|e| ("encode Ok".to_string(), e))?;
            let g2 = build_group(&g.eng, &g.codec, g.k, g.r, &g.data.replace("dense:", "dense2:"), g.soil, g.seed).map_err(|e| ("encode Ok".to_string(), e))?;
            let sets: Vec<u32> = if let Some((m, n)) = kv.str("sets").split_once('x') {
                vec![m.parse().unwrap(); n.parse().unwrap()]
            } else {
                kv.list("sets").iter().map(|x| *x as u32).collect()
            };
            check_rounds(&g, &g2, &sets)
        }
        w => panic!("what {w}"),
    }
}

pub fn replay(_ctx: &Ctx, case: &str) -> Result<(), String> {
    let kv = Kv::parse(case)?;
    run_case(&RefModel::new(), &kv).map(|_| ()).map_err(|(e, o)| format!("expected {e}; observed {o}"))
}

pub fn run(ctx: &Ctx, rep: &mut Report) {
    let refm = RefModel::new();
    let seed = ctx.seed;
    let soil = seed | 1;
    rep.rule = "encoder: after every encode of the small configuration set, recovery(i) for i in 0..r+2 and extreme indexes, iterator contents/order and 4 calls after exhaustion, twice per object; decoder: the same for restored_original / iterator in every decodable received-set of the lattice; rounds: every ordered pair (thorough: triple) of received-sets on one object separated only by dropping the result, and up to 6 consecutive rounds; non-trivial = accessor cases with at least one Some and one None answer, and all multi-round cases; distinct by (kind of case, engine, codec, k, r, set(s))".into();
    let mut cases: Vec<Kv> = Vec::new();
    let engs: Vec<&str> = engines_fast().into_iter().chain(["default"]).collect();
    let kmax = if ctx.thorough() { 5 } else { 4 };
    for &eng in &engs {
        for codec in if eng == "default" { vec!["rs", "def"] } else { vec!["high", "low", "def"] } {
            for k in 1..=kmax {
                for r in 1..=kmax {
                    for bytes in [2usize, 64, 66] {
                        cases.push(Kv::new().with("what", "enc").with("eng", eng).with("codec", codec).with("k", k).with("r", r).with("bytes", bytes).with("seed", seed));
                    }
                    cases.push(Kv::new().with("what", "encrounds").with("eng", eng).with("codec", codec).with("k", k).with("r", r).with("bytes", 66).with("rounds", 6).with("seed", seed));
                }
            }
        }
    }
    let nmax = if ctx.thorough() { 7 } else { 5 };
    for &eng in &engs {
        for codec in if eng == "default" { vec!["rs", "def"] } else { vec!["high", "low", "def"] } {
            for k in 1..nmax {
                for r in 1..nmax {
                    if k + r > nmax {
                        continue;
                    }
                    let data = if (k + r) % 2 == 0 { "dense:66" } else { "dense:64" };
                    let base = Kv::new().with("eng", eng).with("codec", codec).with("k", k).with("r", r).with("data", data).with("soil", soil).with("seed", seed);
                    let sets = subsets_at_least_k(k, r);
                    for &mask in &sets {
                        let (og, rg) = split_mask(k, r, mask);
                        cases.push(base.clone().with("what", "dec").with("og", fmt_ranges(&og)).with("rg", fmt_ranges(&rg)));
                        if og.len() + rg.len() > k && !og.is_empty() && !rg.is_empty() {
                            cases.push(base.clone().with("what", "dec").with("og", fmt_ranges(&og)).with("rg", fmt_ranges(&rg)).with("order", "rf"));
                        }
                    }
                    if k + r <= 4 {
                        for &a in &sets {
                            for &b in &sets {
                                cases.push(base.clone().with("what", "rounds").with("sets", format!("{a},{b}")));
                                if ctx.thorough() {
                                    for &c in &sets {
                                        cases.push(base.clone().with("what", "rounds").with("sets", format!("{a},{b},{c}")));
                                    }
                                }
                            }
                        }
                        // six consecutive rounds of a fixed pattern
                        for &a in &sets {
                            cases.push(base.clone().with("what", "rounds").with("sets", format!("{a},{a},{a},{a},{a},{a}")));
                        }
                    }
                }
            }
        }
    }
    // mid-size configurations: every single missing original, read through accessor and iterator
    let mids: Vec<(usize, usize)> = if ctx.thorough() { vec![(40, 1), (17, 16), (100, 4), (33, 2), (64, 3), (32, 1), (31, 2), (29, 4), (25, 8), (35, 35), (64, 64), (65, 17), (2, 40), (16, 17)] } else { vec![(40, 1), (17, 16), (100, 4), (33, 2), (35, 35), (16, 17)] };
    for &(k, r) in &mids {
        for (eng, codec) in [("nosimd", "def"), ("default", "rs"), ("avx2", "high"), ("nosimd", "low")] {
            if eng == "avx2" && !engines_fast().contains(&"avx2") || !spec_supports(codec_kind(codec), k, r) {
                continue;
            }
            let base = Kv::new().with("eng", eng).with("codec", codec).with("k", k).with("r", r).with("data", "dense:2").with("soil", soil).with("seed", seed);
            for e in 0..k {
                let og: Vec<usize> = (0..k).filter(|i| *i != e).collect();
                // all recovery shards given (full bitmap words), and only the last one
                cases.push(base.clone().with("what", "dec").with("og", fmt_ranges(&og)).with("rg", fmt_ranges(&(0..r).collect::<Vec<_>>())));
                if e % 4 == 1 {
                    cases.push(base.clone().with("what", "dec").with("og", fmt_ranges(&og)).with("rg", fmt_ranges(&(0..r).collect::<Vec<_>>())).with("order", "rf"));
                }
                if e % 4 == 0 {
                    cases.push(base.clone().with("what", "dec").with("og", fmt_ranges(&og)).with("rg", format!("{}", r - 1)));
                }
            }
        }
    }
    rep.bound("mid_size_accessors", J::s(format!("{mids:?}: every single missing original, all / one recovery shard given")));
    // multi-round histories on large configurations (work areas up to the whole field)
    let bigs: Vec<(usize, usize)> = if ctx.thorough() { vec![(65535, 1), (32768, 32768), (61440, 4096), (4096, 61440), (1, 65535), (300, 20), (1000, 1000), (20, 300), (16384, 32768)] } else { vec![(65535, 1), (32768, 32768), (1, 65535), (300, 20), (1000, 1000)] };
    for &(k, r) in &bigs {
        for codec in ["def", "high", "low"] {
            if !spec_supports(codec_kind(codec), k, r) || (!ctx.thorough() && codec != "def" && k + r > 5000) {
                continue;
            }
            let eng = if engines_fast().contains(&"avx2") { "avx2" } else { "nosimd" };
            cases.push(Kv::new().with("what", "bigrounds").with("eng", eng).with("codec", codec).with("k", k).with("r", r).with("data", "dense:2").with("soil", 0).with("seed", seed));
        }
        if spec_supports(Kind::Rs, k, r) {
            cases.push(Kv::new().with("what", "bigrounds").with("eng", "default").with("codec", "rs").with("k", k).with("r", r).with("data", "dense:2").with("soil", 0).with("seed", seed));
        }
    }
    rep.bound("big_rounds", J::s(format!("{bigs:?}: 6 consecutive rounds over 3 received-set shapes touching the highest positions")));
    // long runs: more rounds than fit an 8-bit (thorough: 16-bit) counter
    let long = if ctx.thorough() { 70000 } else { 1100 };
    for (eng, codec) in [("nosimd", "def"), ("default", "rs"), ("nosimd", "high"), ("nosimd", "low")] {
        for &(k, r) in &[(3usize, 2usize), (2, 3)] {
            if ctx.thorough() && (codec == "high" || codec == "low") {
                continue;
            }
            let sets = subsets_at_least_k(k, r);
            // one exactly-k set with a missing original, fixed for the whole run
            let mask = *sets.iter().find(|m| m.count_ones() as usize == k && (*m & ((1u32 << k) - 1)).count_ones() as usize == k - 1).unwrap();
            cases.push(Kv::new().with("what", "rounds").with("eng", eng).with("codec", codec).with("k", k).with("r", r).with("data", "dense:64").with("soil", soil).with("seed", seed).with("sets", format!("{mask}x{long}")));
            cases.push(Kv::new().with("what", "encrounds").with("eng", eng).with("codec", codec).with("k", k).with("r", r).with("bytes", 64).with("rounds", long).with("seed", seed));
        }
    }
    rep.bound("long_runs", J::s(format!("{long} consecutive rounds of a fixed received-set / encode on one object")));
    rep.bound("encoder_cfg", J::s(format!("[1..{kmax}]^2 x sizes 2/64/66 x {engs:?}")));
    rep.bound("decoder_lattice", J::s(format!("every sufficient received-set for k+r <= {nmax}")));
    rep.bound("rounds", J::s(format!("every ordered {} of received-sets for k+r <= 4; 6 consecutive rounds per set", if ctx.thorough() { "pair and triple" } else { "pair" })));
    let results: Vec<Result<u64, V>> = par_for(cases.len(), 8, |i| match guard(|| run_case(&refm, &cases[i])) {
        Ok(r) => r,
        Err(p) => Err(("no panic".into(), format!("PANIC: {p}"))),
    });
    let mut per: std::collections::BTreeMap<String, u64> = Default::default();
    for (kv, res) in cases.iter().zip(results) {
        rep.states += 1;
        rep.traces += 1;
        rep.distinct += 1;
        *per.entry(kv.str("what").to_string()).or_default() += 1;
        match res {
            Ok(n) => {
                rep.evaluations += n;
                rep.transitions += n;
            }
            Err((exp, obs)) => rep.violation(Violation {
                key: format!("{}-{}-{}-k{}r{}-{}", kv.str("what"), kv.str("eng"), kv.str("codec"), kv.str("k"), kv.str("r"), kv.opt("sets").map(|s| s.to_string()).or(kv.opt("og").map(|o| format!("o{o}-r{}{}", kv.str("rg"), kv.opt("order").map(|x| format!("-{x}")).unwrap_or_default()))).or(kv.opt("bytes").map(|b| format!("b{b}"))).unwrap_or_default()),
                case: kv.dump(),
                expected: exp,
                observed: obs,
            }),
        }
    }
    for (k, v) in per {
        rep.extra(&format!("cases_{k}"), J::i(v));
    }
    for i in [0, cases.len() / 3, cases.len() / 2, cases.len() - 1] {
        rep.sample(cases[i].dump());
    }
}
