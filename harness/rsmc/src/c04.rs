//! C04 — every even shard size works and symbol slots never interact.
//! For every even size in the bound: exact output lengths; slot-wise self differential (slot s of
//! every output == coding that slot alone as 2-byte shards); G*data by gfref; decode patterns.
//! The working space is soiled, so the unused lanes of a short final block hold stale bytes.
use crate::core::*;
use crate::json::J;
use crate::kv::*;
use crate::report::*;
use crate::rt::*;

fn check_size(refm: &RefModel, eng: &str, codec: &str, k: usize, r: usize, bytes: usize, soil: u64, seed: u64) -> Result<u64, (String, String)> {
    let mut n = 0u64;
    let g = build_group(eng, codec, k, r, &format!("dense:{bytes}"), soil, seed).map_err(|e| (format!("encode Ok with {r} shards of {bytes} bytes"), e))?;
    // (iii) G * data
    let kind = codec_kind(codec);
    let want = refm.encode(spec_is_high(kind, k, r), k, r, &g.originals);
    for j in 0..r {
        if g.recovery[j] != want[j] {
            let pos = g.recovery[j].iter().zip(&want[j]).position(|(a, b)| a != b);
            return Err((format!("recovery[{j}] = G*data = {}", hex(&want[j])), format!("{} (first diff at byte {pos:?})", hex(&g.recovery[j]))));
        }
        n += 1;
    }
    // (ii) slot differential
    let osym: Vec<Vec<u16>> = g.originals.iter().map(|o| gfref::shard_to_symbols(o)).collect();
    let rsym: Vec<Vec<u16>> = g.recovery.iter().map(|o| gfref::shard_to_symbols(o)).collect();
    let slots = bytes / 2;
    // every slot for sizes up to 3 blocks, else the block edges and the tail
    let pick: Vec<usize> = if slots <= 100 { (0..slots).collect() } else { (0..slots).filter(|s| s % 32 < 2 || s % 32 > 29 || *s >= slots - 34).collect() };
    for &s in &pick {
        let tiny: Vec<Vec<u8>> = osym.iter().map(|o| vec![o[s] as u8, (o[s] >> 8) as u8]).collect();
        let rec = real_encode(eng, codec, k, r, 2, &tiny, 0).map_err(|e| ("2-byte encode Ok".to_string(), e))?;
        for j in 0..r {
            let v = rec[j][0] as u16 | (rec[j][1] as u16) << 8;
            n += 1;
            if v != rsym[j][s] {
                return Err((format!("slot {s} of recovery[{j}] == the same slot coded alone as 2-byte shards = {v:#06x}"), format!("{:#06x}", rsym[j][s])));
            }
        }
    }
    // decode patterns
    for (name, og, rg) in crate::c01::families(k, r).into_iter().filter(|(n, _, _)| n == "maxloss-first" || n == "maxloss-last" || n == "every-other") {
        let m = g.decode(&og, &rg, None).map_err(|e| (format!("decode Ok ({name})"), e))?;
        g.check_restored(&og, &m).map_err(|e| (format!("restored == missing originals, each of {bytes} bytes ({name})"), e))?;
        n += 1;
    }
    // mid-size configurations: every single missing original, with all recovery shards given (full bitmap
    // words around the missing one) and with one recovery shard only
    if (32..=256).contains(&k) {
        for e in 0..k {
            let og: Vec<usize> = (0..k).filter(|i| *i != e).collect();
            for rg in [(0..r).collect::<Vec<usize>>(), vec![e % r]] {
                let m = g.decode(&og, &rg, None).map_err(|e2| (format!("decode Ok (original {e} missing, recovery {})", fmt_ranges(&rg)), e2))?;
                g.check_restored(&og, &m).map_err(|e2| (format!("restored == original {e} of {bytes} bytes (recovery given: {})", fmt_ranges(&rg)), e2))?;
                n += 1;
            }
        }
    }
    Ok(n)
}

fn run_case(refm: &RefModel, kv: &Kv) -> Result<u64, (String, String)> {
    check_size(refm, kv.str("eng"), kv.str("codec"), kv.usize("k"), kv.usize("r"), kv.usize("bytes"), kv.u64("soil"), kv.u64("seed"))
}

pub fn replay(_ctx: &Ctx, case: &str) -> Result<(), String> {
    let kv = Kv::parse(case)?;
    run_case(&RefModel::new(), &kv).map(|_| ()).map_err(|(e, o)| format!("expected {e}; observed {o}"))
}

pub fn run(ctx: &Ctx, rep: &mut Report) {
    let refm = RefModel::new();
    let seed = ctx.seed;
    let soil = seed | 1;
    rep.rule = "case = (engine, codec, (k,r), even shard size): lengths; every slot (block edges + tail above 100 slots) re-coded alone as 2-byte shards must equal that slot of the full-size output; output == G*data by gfref with the documented byte placement; decode of max-loss/every-other patterns; non-trivial = size not a multiple of 64 (short final block) ; distinct by (engine,codec,k,r,size)".into();
    rep.assume("working space soiled through the public API for every full-size encode and decode (stale bytes in unused lanes)");
    let (smax, kmax) = if ctx.thorough() { (260usize, 5usize) } else { (132, 3) };
    let mut sizes: Vec<usize> = (1..=smax / 2).map(|x| 2 * x).collect();
    if ctx.thorough() {
        sizes.extend([1022, 1024, 1026, 4094]);
    }
    // big shards (values that do not fit 16 bits, odd block counts, short tails) on a few configurations
    let big_sizes: Vec<usize> = if ctx.thorough() { vec![4096, 4098, 8190, 32768, 65534, 65536, 65538, 131072 + 66, 262144 + 2] } else { vec![1022, 1024, 4098, 65534, 65536, 65538, 131072 + 66] };
    let mut cfgs: Vec<(usize, usize)> = Vec::new();
    for k in 1..=kmax {
        for r in 1..=kmax {
            cfgs.push((k, r));
        }
    }
    if ctx.thorough() {
        cfgs.push((33, 3));
        cfgs.push((3, 33));
    }
    let mut cases = Vec::new();
    for &eng in &engines_all() {
        for codec in if eng == "default" { vec!["high", "low", "def", "rs", "oneshot"] } else { vec!["high", "low", "def"] } {
            for &(k, r) in &cfgs {
                for &b in &sizes {
                    // thorough: slow engines on a fixed half of the sizes for the bigger configurations
                    if ctx.thorough() && (eng == "naive" || eng == "neonemu") && k + r > 6 && (b / 2) % 2 == 0 {
                        continue;
                    }
                    cases.push(Kv::new().with("eng", eng).with("codec", codec).with("k", k).with("r", r).with("bytes", b).with("soil", soil).with("seed", seed));
                }
            }
        }
    }
    for &eng in &engines_fast() {
        for (ci, codec) in ["high", "low", "def"].into_iter().enumerate() {
            for (gi, &(k, r)) in [(1usize, 1usize), (2, 3), (3, 2), (5, 5), (9, 4), (4, 9)].iter().enumerate() {
                for (bi, &b) in big_sizes.iter().enumerate() {
                    if !ctx.thorough() && (ci + gi + bi) % 2 != 0 {
                        continue;
                    }
                    cases.push(Kv::new().with("eng", eng).with("codec", codec).with("k", k).with("r", r).with("bytes", b).with("soil", soil).with("seed", seed));
                }
            }
        }
    }
    // mid-size configurations with short final blocks: every single missing original
    let mid: Vec<(usize, usize)> = if ctx.thorough() { vec![(40, 4), (40, 16), (70, 8), (40, 3), (33, 40), (100, 1), (64, 2), (40, 32), (129, 16)] } else { vec![(40, 4), (40, 16), (70, 8), (40, 3), (33, 40), (100, 1)] };
    for (mi, &(k, r)) in mid.iter().enumerate() {
        for (bi, b) in [34usize, 130, 2].into_iter().enumerate() {
            let fast = engines_fast();
            let eng = fast[(mi + bi) % fast.len()];
            for codec in ["high", "low"] {
                if spec_supports(Kind::parse(codec), k, r) {
                    cases.push(Kv::new().with("eng", eng).with("codec", codec).with("k", k).with("r", r).with("bytes", b).with("soil", soil).with("seed", seed));
                }
            }
        }
    }
    // every residue of the shard size modulo 64 (and the sizes just above one and two blocks) on configurations with
    // several chunks on the transformed side, where shard-size residue x rate x chunk position can interact
    let res_cfgs: Vec<(usize, usize)> = if ctx.thorough() { vec![(20, 12), (12, 20), (31, 17), (17, 31), (9, 23)] } else { vec![(20, 12), (12, 20), (31, 17)] };
    for (ci, &(k, r)) in res_cfgs.iter().enumerate() {
        for b in (1..=65usize).map(|x| 2 * x) {
            let fast = engines_fast();
            for (ki, codec) in ["high", "low"].into_iter().enumerate() {
                let engs: Vec<&'static str> = if ctx.thorough() { fast.clone() } else { vec![fast[(ci + ki + b / 2) % fast.len()]] };
                for eng in engs {
                    cases.push(Kv::new().with("eng", eng).with("codec", codec).with("k", k).with("r", r).with("bytes", b).with("soil", soil).with("seed", seed));
                }
            }
        }
    }
    rep.bound("residue_cfg", J::s(format!("{res_cfgs:?} x {{high,low}} x every even shard size 2..=130 (every residue modulo 64 in the first, second and third block)")));
    rep.bound("mid_cfg", J::s(format!("{mid:?} x {{high,low}} with shard sizes 34, 130, 2: additionally every single missing original (all recovery shards given / one given)")));
    // configurations on the edge of the envelope (work area of exactly 65536 positions) with short final blocks
    let edge: Vec<(usize, usize, &str)> = vec![(65532, 4, "high"), (65528, 8, "def"), (4, 65532, "low"), (8, 65528, "def"), (65535, 1, "def"), (1, 65535, "def")];
    for (ei, &(k, r, codec)) in edge.iter().enumerate() {
        for (bi, b) in [34usize, 130, 64].into_iter().enumerate() {
            if !ctx.thorough() && b == 64 {
                continue;
            }
            let fast = engines_fast();
            let eng = fast[(ei + bi) % fast.len()];
            cases.push(Kv::new().with("eng", eng).with("codec", codec).with("k", k).with("r", r).with("bytes", b).with("soil", soil).with("seed", seed));
        }
    }
    rep.bound("edge_cfg", J::s(format!("{edge:?} with shard sizes 34 and 130 (thorough: and 64)")));
    // API layers with several MiB of data in one call
    for codec in ["oneshot", "rs", "def"] {
        for &(k, r) in &[(3usize, 2usize), (5, 5)] {
            for b in [1usize << 20, (1 << 20) + 66, (1 << 20) + 4098] {
                if !ctx.thorough() && b == (1 << 20) + 66 && k == 5 {
                    continue;
                }
                cases.push(Kv::new().with("eng", "default").with("codec", codec).with("k", k).with("r", r).with("bytes", b).with("soil", 0).with("seed", seed));
            }
        }
    }
    rep.bound("huge_calls", J::s("(3,2) and (5,5) with shards of 1 MiB, 1 MiB+66, 1 MiB+4098 through one-shot, ReedSolomon* and DefaultRate<DefaultEngine>"));
    rep.bound("big_sizes", J::s(format!("{big_sizes:?} x 6 configurations x {{high,low,def}} x {:?}{}", engines_fast(), if ctx.thorough() { "" } else { " (every second combination)" })));
    rep.bound("sizes", J::s(format!("every even size 2..={smax}{}", if ctx.thorough() { " and 1022,1024,1026,4094" } else { "" })));
    rep.bound("cfg", J::s(format!("[1..{kmax}]^2{} x codecs x all engines", if ctx.thorough() { " + (33,3) (3,33)" } else { "" })));
    let results: Vec<Result<u64, (String, String)>> = par_for(cases.len(), 8, |i| match guard(|| run_case(&refm, &cases[i])) {
        Ok(r) => r,
        Err(p) => Err(("no panic".into(), format!("PANIC: {p}"))),
    });
    for (kv, res) in cases.iter().zip(results) {
        rep.states += 1;
        if kv.usize("bytes") % 64 != 0 {
            rep.distinct += 1;
        }
        match res {
            Ok(n) => {
                rep.evaluations += n;
                rep.traces += n;
                rep.transitions += n;
            }
            Err((exp, obs)) => rep.violation(Violation {
                key: format!("{}-{}-k{}r{}-b{}", kv.str("codec"), kv.str("eng"), kv.str("k"), kv.str("r"), kv.str("bytes")),
                case: kv.dump(),
                expected: exp,
                observed: obs,
            }),
        }
    }
    for i in [0, cases.len() / 3, cases.len() / 2, cases.len() - 1] {
        rep.sample(cases[i].dump());
    }
}
