use crate::report::*;
pub fn run(_ctx: &Ctx, rep: &mut Report) { rep.machinery_errors.push("not implemented".into()); }
pub fn replay(_ctx: &Ctx, _case: &str) -> Result<(), String> { Err("not implemented".into()) }
