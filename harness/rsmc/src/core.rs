//! Shared machinery: engines, codec wrappers, observations, data alphabets, soiling,
//! parallel enumeration, panic capture.
use std::collections::BTreeMap;
use std::panic::{catch_unwind, AssertUnwindSafe};
use std::sync::atomic::{AtomicUsize, Ordering};
use std::sync::Mutex;

use reed_solomon_simd::engine::{DefaultEngine, Engine, Naive, NoSimd};
#[cfg(any(target_arch = "x86", target_arch = "x86_64"))]
use reed_solomon_simd::engine::{Avx2, Ssse3};
use reed_solomon_simd::rate::{
    DecoderWork, DefaultRateDecoder, DefaultRateEncoder, EncoderWork, HighRateDecoder, HighRateEncoder,
    LowRateDecoder, LowRateEncoder, RateDecoder, RateEncoder,
};
use reed_solomon_simd::{Error, ReedSolomonDecoder, ReedSolomonEncoder};

#[cfg(not(no_neon_port))]
pub type NeonEmu = crate::neon_port::Neon;
/// the ported Neon source is unavailable for this tree: NoSimd stands in for the type (never selected:
/// "neonemu" is then absent from engines_all() and with_engine! refuses the name)
#[cfg(no_neon_port)]
pub type NeonEmu = NoSimdStandIn;
#[cfg(no_neon_port)]
#[derive(Clone, Copy)]
pub struct NoSimdStandIn;

/// notes about source ports that had to be left out (empty on a tree the ports apply to)
pub fn port_notes() -> Vec<String> {
    let mut v = Vec::new();
    for (what, note) in [("emulated Neon engine not explored", env!("VERIF_NEON_PORT_NOTE")), ("AArch64 arm of DefaultEngine not explored", env!("VERIF_AARCH64_PORT_NOTE"))] {
        if !note.is_empty() {
            v.push(format!("{what}: {note}"));
        }
    }
    v
}

// ----------------------------------------------------------------------
// engines

pub trait Eng: Engine + Sized + 'static {
    const NAME: &'static str;
    fn make() -> Self;
}
impl Eng for Naive {
    const NAME: &'static str = "naive";
    fn make() -> Self {
        Naive::new()
    }
}
impl Eng for NoSimd {
    const NAME: &'static str = "nosimd";
    fn make() -> Self {
        NoSimd::new()
    }
}
impl Eng for Ssse3 {
    const NAME: &'static str = "ssse3";
    fn make() -> Self {
        assert!(std::is_x86_feature_detected!("ssse3"));
        Ssse3::new()
    }
}
impl Eng for Avx2 {
    const NAME: &'static str = "avx2";
    fn make() -> Self {
        assert!(std::is_x86_feature_detected!("avx2"));
        Avx2::new()
    }
}
impl Eng for DefaultEngine {
    const NAME: &'static str = "default";
    fn make() -> Self {
        DefaultEngine::new()
    }
}
#[cfg(not(no_neon_port))]
impl Eng for NeonEmu {
    const NAME: &'static str = "neonemu";
    fn make() -> Self {
        NeonEmu::new()
    }
}

/// All engines usable on this machine, simplest first.
pub fn engines_all() -> Vec<&'static str> {
    let mut v = vec!["naive", "nosimd"];
    if std::is_x86_feature_detected!("ssse3") {
        v.push("ssse3");
    }
    if std::is_x86_feature_detected!("avx2") {
        v.push("avx2");
    }
    v.push("default");
    #[cfg(not(no_neon_port))]
    v.push("neonemu");
    v
}
pub fn engines_fast() -> Vec<&'static str> {
    let mut v = vec!["nosimd"];
    if std::is_x86_feature_detected!("avx2") {
        v.push("avx2");
    }
    v
}

#[macro_export]
macro_rules! with_engine {
    ($name:expr, $E:ident => $body:expr) => {{
        use reed_solomon_simd::engine as __e;
        match $name {
            "naive" => {
                type $E = __e::Naive;
                $body
            }
            "nosimd" => {
                type $E = __e::NoSimd;
                $body
            }
            "ssse3" => {
                type $E = __e::Ssse3;
                $body
            }
            "avx2" => {
                type $E = __e::Avx2;
                $body
            }
            "default" => {
                type $E = __e::DefaultEngine;
                $body
            }
            #[cfg(not(no_neon_port))]
            "neonemu" => {
                type $E = $crate::core::NeonEmu;
                $body
            }
            other => panic!("unknown engine {other}"),
        }
    }};
}

// ----------------------------------------------------------------------
// codec kinds

#[derive(Clone, Copy, Debug, PartialEq, Eq, Hash, PartialOrd, Ord)]
pub enum Kind {
    /// ReedSolomonEncoder / ReedSolomonDecoder (always DefaultEngine, default rate)
    Rs,
    Def,
    High,
    Low,
}
impl Kind {
    pub fn name(self) -> &'static str {
        match self {
            Kind::Rs => "rs",
            Kind::Def => "def",
            Kind::High => "high",
            Kind::Low => "low",
        }
    }
    pub fn parse(s: &str) -> Kind {
        match s {
            "rs" => Kind::Rs,
            "def" => Kind::Def,
            "high" => Kind::High,
            "low" => Kind::Low,
            _ => panic!("kind {s}"),
        }
    }
    pub const RATES: [Kind; 3] = [Kind::High, Kind::Low, Kind::Def];
}

// ----------------------------------------------------------------------
// specification of the envelope and of the rate rule (from README / property text only)

pub fn pow2ceil(x: usize) -> usize {
    let mut p = 1usize;
    while p < x {
        p <<= 1;
    }
    p
}

/// README table: both >= 1 and for some n one count <= 2^n and the other <= 65536 - 2^n.
pub fn spec_supports(kind: Kind, k: usize, r: usize) -> bool {
    if k == 0 || r == 0 || k > 65536 || r > 65536 {
        return false;
    }
    let high = (0..=16).any(|n| r <= (1usize << n) && k <= 65536 - (1usize << n));
    let low = (0..=16).any(|n| k <= (1usize << n) && r <= 65536 - (1usize << n));
    match kind {
        Kind::High => high,
        Kind::Low => low,
        Kind::Def | Kind::Rs => high || low,
    }
}

/// C09 rule: high rate iff np2(k) > np2(r), or equal and k <= r.
pub fn spec_high_selected(k: usize, r: usize) -> bool {
    let (pk, pr) = (pow2ceil(k), pow2ceil(r));
    pk > pr || (pk == pr && k <= r)
}

/// Which code (true = high rate generator) a codec of `kind` must implement for (k, r).
pub fn spec_is_high(kind: Kind, k: usize, r: usize) -> bool {
    match kind {
        Kind::High => true,
        Kind::Low => false,
        Kind::Def | Kind::Rs => spec_high_selected(k, r),
    }
}

/// Acceptable errors of validate/new/reset; empty = must succeed.
pub fn spec_validate(kind: Kind, k: usize, r: usize, bytes: usize) -> Vec<Error> {
    let mut v = Vec::new();
    if !spec_supports(kind, k, r) {
        v.push(Error::UnsupportedShardCount { original_count: k, recovery_count: r });
    }
    if bytes == 0 || bytes % 2 != 0 {
        v.push(Error::InvalidShardSize { shard_bytes: bytes });
    }
    v
}

/// Positions (shards) of working space a codec of this kind needs, from the documented layout.
pub fn spec_work_blocks(kind: Kind, decoder: bool, k: usize, r: usize, bytes: usize) -> usize {
    let high = spec_is_high(kind, k, r);
    let count = if !decoder {
        if high {
            let c = pow2ceil(r);
            k.div_ceil(c) * c
        } else {
            let c = pow2ceil(k);
            r.div_ceil(c) * c
        }
    } else if high {
        pow2ceil(pow2ceil(r) + k)
    } else {
        pow2ceil(pow2ceil(k) + r)
    };
    count.saturating_mul(bytes.div_ceil(64))
}

// ----------------------------------------------------------------------
// encoder wrapper

pub enum AnyEnc<E: Eng> {
    Rs(ReedSolomonEncoder),
    Def(DefaultRateEncoder<E>),
    High(HighRateEncoder<E>),
    Low(LowRateEncoder<E>),
}

impl<E: Eng> AnyEnc<E> {
    pub fn new(kind: Kind, k: usize, r: usize, bytes: usize, work: Option<EncoderWork>) -> Result<Self, Error> {
        Ok(match kind {
            Kind::Rs => {
                assert!(work.is_none());
                AnyEnc::Rs(ReedSolomonEncoder::new(k, r, bytes)?)
            }
            Kind::Def => AnyEnc::Def(DefaultRateEncoder::new(k, r, bytes, E::make(), work)?),
            Kind::High => AnyEnc::High(HighRateEncoder::new(k, r, bytes, E::make(), work)?),
            Kind::Low => AnyEnc::Low(LowRateEncoder::new(k, r, bytes, E::make(), work)?),
        })
    }
    pub fn kind(&self) -> Kind {
        match self {
            AnyEnc::Rs(_) => Kind::Rs,
            AnyEnc::Def(_) => Kind::Def,
            AnyEnc::High(_) => Kind::High,
            AnyEnc::Low(_) => Kind::Low,
        }
    }
    pub fn add(&mut self, shard: &[u8]) -> Result<(), Error> {
        match self {
            AnyEnc::Rs(e) => e.add_original_shard(shard),
            AnyEnc::Def(e) => e.add_original_shard(shard),
            AnyEnc::High(e) => e.add_original_shard(shard),
            AnyEnc::Low(e) => e.add_original_shard(shard),
        }
    }
    pub fn encode(&mut self) -> Result<reed_solomon_simd::EncoderResult<'_>, Error> {
        match self {
            AnyEnc::Rs(e) => e.encode(),
            AnyEnc::Def(e) => e.encode(),
            AnyEnc::High(e) => e.encode(),
            AnyEnc::Low(e) => e.encode(),
        }
    }
    pub fn reset(&mut self, k: usize, r: usize, bytes: usize) -> Result<(), Error> {
        match self {
            AnyEnc::Rs(e) => e.reset(k, r, bytes),
            AnyEnc::Def(e) => e.reset(k, r, bytes),
            AnyEnc::High(e) => e.reset(k, r, bytes),
            AnyEnc::Low(e) => e.reset(k, r, bytes),
        }
    }
    pub fn into_work(self) -> Option<EncoderWork> {
        match self {
            AnyEnc::Rs(_) => None,
            AnyEnc::Def(e) => Some(e.into_parts().1),
            AnyEnc::High(e) => Some(e.into_parts().1),
            AnyEnc::Low(e) => Some(e.into_parts().1),
        }
    }
    pub fn digest(&self) -> u64 {
        match self {
            AnyEnc::Rs(e) => e.verif_digest(),
            AnyEnc::Def(e) => e.verif_digest(),
            AnyEnc::High(e) => e.verif_digest(),
            AnyEnc::Low(e) => e.verif_digest(),
        }
    }
    pub fn supports(kind: Kind, k: usize, r: usize) -> bool {
        match kind {
            Kind::Rs => ReedSolomonEncoder::supports(k, r),
            Kind::Def => <DefaultRateEncoder<E> as RateEncoder<E>>::supports(k, r),
            Kind::High => <HighRateEncoder<E> as RateEncoder<E>>::supports(k, r),
            Kind::Low => <LowRateEncoder<E> as RateEncoder<E>>::supports(k, r),
        }
    }
    /// `None` for Kind::Rs which has no validate().
    pub fn validate(kind: Kind, k: usize, r: usize, bytes: usize) -> Option<Result<(), Error>> {
        match kind {
            Kind::Rs => None,
            Kind::Def => Some(<DefaultRateEncoder<E> as RateEncoder<E>>::validate(k, r, bytes)),
            Kind::High => Some(<HighRateEncoder<E> as RateEncoder<E>>::validate(k, r, bytes)),
            Kind::Low => Some(<LowRateEncoder<E> as RateEncoder<E>>::validate(k, r, bytes)),
        }
    }
}

// ----------------------------------------------------------------------
// decoder wrapper

pub enum AnyDec<E: Eng> {
    Rs(ReedSolomonDecoder),
    Def(DefaultRateDecoder<E>),
    High(HighRateDecoder<E>),
    Low(LowRateDecoder<E>),
}

impl<E: Eng> AnyDec<E> {
    pub fn new(kind: Kind, k: usize, r: usize, bytes: usize, work: Option<DecoderWork>) -> Result<Self, Error> {
        Ok(match kind {
            Kind::Rs => {
                assert!(work.is_none());
                AnyDec::Rs(ReedSolomonDecoder::new(k, r, bytes)?)
            }
            Kind::Def => AnyDec::Def(DefaultRateDecoder::new(k, r, bytes, E::make(), work)?),
            Kind::High => AnyDec::High(HighRateDecoder::new(k, r, bytes, E::make(), work)?),
            Kind::Low => AnyDec::Low(LowRateDecoder::new(k, r, bytes, E::make(), work)?),
        })
    }
    pub fn kind(&self) -> Kind {
        match self {
            AnyDec::Rs(_) => Kind::Rs,
            AnyDec::Def(_) => Kind::Def,
            AnyDec::High(_) => Kind::High,
            AnyDec::Low(_) => Kind::Low,
        }
    }
    pub fn add_original(&mut self, index: usize, shard: &[u8]) -> Result<(), Error> {
        match self {
            AnyDec::Rs(d) => d.add_original_shard(index, shard),
            AnyDec::Def(d) => d.add_original_shard(index, shard),
            AnyDec::High(d) => d.add_original_shard(index, shard),
            AnyDec::Low(d) => d.add_original_shard(index, shard),
        }
    }
    pub fn add_recovery(&mut self, index: usize, shard: &[u8]) -> Result<(), Error> {
        match self {
            AnyDec::Rs(d) => d.add_recovery_shard(index, shard),
            AnyDec::Def(d) => d.add_recovery_shard(index, shard),
            AnyDec::High(d) => d.add_recovery_shard(index, shard),
            AnyDec::Low(d) => d.add_recovery_shard(index, shard),
        }
    }
    pub fn decode(&mut self) -> Result<reed_solomon_simd::DecoderResult<'_>, Error> {
        match self {
            AnyDec::Rs(d) => d.decode(),
            AnyDec::Def(d) => d.decode(),
            AnyDec::High(d) => d.decode(),
            AnyDec::Low(d) => d.decode(),
        }
    }
    pub fn reset(&mut self, k: usize, r: usize, bytes: usize) -> Result<(), Error> {
        match self {
            AnyDec::Rs(d) => d.reset(k, r, bytes),
            AnyDec::Def(d) => d.reset(k, r, bytes),
            AnyDec::High(d) => d.reset(k, r, bytes),
            AnyDec::Low(d) => d.reset(k, r, bytes),
        }
    }
    pub fn into_work(self) -> Option<DecoderWork> {
        match self {
            AnyDec::Rs(_) => None,
            AnyDec::Def(d) => Some(d.into_parts().1),
            AnyDec::High(d) => Some(d.into_parts().1),
            AnyDec::Low(d) => Some(d.into_parts().1),
        }
    }
    pub fn digest(&self) -> u64 {
        match self {
            AnyDec::Rs(d) => d.verif_digest(),
            AnyDec::Def(d) => d.verif_digest(),
            AnyDec::High(d) => d.verif_digest(),
            AnyDec::Low(d) => d.verif_digest(),
        }
    }
    pub fn supports(kind: Kind, k: usize, r: usize) -> bool {
        match kind {
            Kind::Rs => ReedSolomonDecoder::supports(k, r),
            Kind::Def => <DefaultRateDecoder<E> as RateDecoder<E>>::supports(k, r),
            Kind::High => <HighRateDecoder<E> as RateDecoder<E>>::supports(k, r),
            Kind::Low => <LowRateDecoder<E> as RateDecoder<E>>::supports(k, r),
        }
    }
    pub fn validate(kind: Kind, k: usize, r: usize, bytes: usize) -> Option<Result<(), Error>> {
        match kind {
            Kind::Rs => None,
            Kind::Def => Some(<DefaultRateDecoder<E> as RateDecoder<E>>::validate(k, r, bytes)),
            Kind::High => Some(<HighRateDecoder<E> as RateDecoder<E>>::validate(k, r, bytes)),
            Kind::Low => Some(<LowRateDecoder<E> as RateDecoder<E>>::validate(k, r, bytes)),
        }
    }
}

// ----------------------------------------------------------------------
// panic capture

thread_local! {
    static LAST_PANIC: std::cell::RefCell<String> = const { std::cell::RefCell::new(String::new()) };
}

pub fn install_quiet_panic_hook() {
    std::panic::set_hook(Box::new(|info| {
        let msg = format!("{info}");
        LAST_PANIC.with(|p| *p.borrow_mut() = msg);
    }));
}

/// Runs `f`, turning a panic into Err(message).
pub fn guard<T>(f: impl FnOnce() -> T) -> Result<T, String> {
    match catch_unwind(AssertUnwindSafe(f)) {
        Ok(v) => Ok(v),
        Err(_) => Err(LAST_PANIC.with(|p| p.borrow().clone())),
    }
}

// ----------------------------------------------------------------------
// deterministic data

#[derive(Clone)]
pub struct Rng(pub u64);
impl Rng {
    pub fn new(seed: u64) -> Self {
        Rng(seed.wrapping_mul(0x9E37_79B9_7F4A_7C15) ^ 0xD1B5_4A32_D192_ED03 | 1)
    }
    pub fn next(&mut self) -> u64 {
        // xorshift64*
        let mut x = self.0;
        x ^= x >> 12;
        x ^= x << 25;
        x ^= x >> 27;
        self.0 = x;
        x.wrapping_mul(0x2545_F491_4F6C_DD1D)
    }
    pub fn fill(&mut self, buf: &mut [u8]) {
        for c in buf.chunks_mut(8) {
            let v = self.next().to_le_bytes();
            c.copy_from_slice(&v[..c.len()]);
        }
    }
    /// never all-zero bytes: every byte non-zero (used for soiling, so that any dependence shows)
    pub fn fill_nonzero(&mut self, buf: &mut [u8]) {
        self.fill(buf);
        for b in buf.iter_mut() {
            if *b == 0 {
                *b = 0xA5;
            }
        }
    }
}

/// Dense pseudo-random originals.
pub fn data_dense(k: usize, bytes: usize, seed: u64) -> Vec<Vec<u8>> {
    let mut rng = Rng::new(seed ^ ((k as u64) << 32) ^ bytes as u64);
    (0..k)
        .map(|_| {
            let mut v = vec![0u8; bytes];
            rng.fill(&mut v);
            v
        })
        .collect()
}

/// Basis-in-slots: shard size 32*k bytes = 16*k slots; slot 16*i+b of original i holds symbol 2^b.
pub fn data_basis(k: usize) -> (usize, Vec<Vec<u8>>) {
    let slots = 16 * k;
    let data = (0..k)
        .map(|i| {
            let mut sym = vec![0u16; slots];
            for b in 0..16 {
                sym[16 * i + b] = 1 << b;
            }
            gfref::symbols_to_shard(&sym)
        })
        .collect();
    (slots * 2, data)
}

/// Structured data built from the symbol values a data-dependent short cut would single out: shard 0 is
/// all zero, shards 1 and 2 are equal, shard 3 is all 0xFFFF, shard 4 has equal low and high halves in every
/// block, the others cycle through {0x0000, 0x0001, 0xFFFF, 0x00FF, 0xFF00, 0x8000, 0x0100, 0x0101, 0xFFFE}
/// one symbol per slot (phase depending on the shard). Symbols are written with the documented placement
/// (low bytes first, then high bytes, per block).
pub fn data_special(k: usize, bytes: usize) -> Vec<Vec<u8>> {
    const SYMS: [u16; 9] = [0x0000, 0x0001, 0xFFFF, 0x00FF, 0xFF00, 0x8000, 0x0100, 0x0101, 0xFFFE];
    // fill every symbol slot of a shard from f(slot) with the documented placement
    let fill = |shard: &mut [u8], f: &dyn Fn(usize) -> u16| {
        let mut start = 0;
        let mut block = 0;
        while start < shard.len() {
            let t = (shard.len() - start).min(64);
            let half = t / 2;
            for s in 0..half {
                let sym = f(block * 32 + s);
                shard[start + s] = sym as u8;
                shard[start + half + s] = (sym >> 8) as u8;
            }
            start += t;
            block += 1;
        }
    };
    (0..k)
        .map(|i| {
            let mut sh = vec![0u8; bytes];
            match i % 7 {
                0 => {}
                1 | 2 => fill(&mut sh, &|s| SYMS[(s * 5 + 3) % 9]),
                3 => sh.iter_mut().for_each(|b| *b = 0xFF),
                4 => fill(&mut sh, &|s| {
                    let v = (s as u16).wrapping_mul(37).wrapping_add(11) & 0xFF;
                    v | v << 8
                }),
                _ => fill(&mut sh, &|s| SYMS[(s + 2 * i) % 9]),
            }
            sh
        })
        .collect()
}

pub fn data_ones(k: usize, bytes: usize) -> Vec<Vec<u8>> {
    vec![vec![0xFFu8; bytes]; k]
}

// ----------------------------------------------------------------------
// soiling: working space with adversarial stale contents, reached through the public API only

/// An EncoderWork whose first `blocks` 64-byte blocks hold non-zero pseudo-random bytes and whose
/// counters say "complete round pending" (HighRateEncoder(K,1) with all K originals added, never
/// encoded, taken apart with into_parts()).
pub fn soiled_encoder_work(blocks: usize, seed: u64) -> EncoderWork {
    let blocks = blocks.max(1);
    let (k, l) = if blocks <= 60000 { (blocks, 1) } else { (60000, blocks.div_ceil(60000)) };
    let mut enc = HighRateEncoder::<NoSimd>::new(k, 1, 64 * l, NoSimd::new(), None).expect("soil enc");
    let mut rng = Rng::new(seed);
    let mut buf = vec![0u8; 64 * l];
    for _ in 0..k {
        rng.fill_nonzero(&mut buf);
        enc.add_original_shard(&buf).expect("soil add");
    }
    enc.into_parts().1
}

/// A DecoderWork whose first `blocks` blocks hold non-zero pseudo-random bytes, whose bitmap is all
/// ones up to 2K and whose counters are maximal (LowRateDecoder(K,K), K a power of two, all 2K shards
/// added, never decoded).
pub fn soiled_decoder_work(blocks: usize, seed: u64) -> DecoderWork {
    let blocks = blocks.max(2);
    let mut k = pow2ceil(blocks.div_ceil(2));
    let mut l = 1;
    if k > 32768 {
        l = (2 * k).div_ceil(65536);
        k = 32768;
    }
    let mut dec = LowRateDecoder::<NoSimd>::new(k, k, 64 * l, NoSimd::new(), None).expect("soil dec");
    let mut rng = Rng::new(seed ^ 0x5011);
    let mut buf = vec![0u8; 64 * l];
    for i in 0..k {
        rng.fill_nonzero(&mut buf);
        dec.add_original_shard(i, &buf).expect("soil add o");
        rng.fill_nonzero(&mut buf);
        dec.add_recovery_shard(i, &buf).expect("soil add r");
    }
    dec.into_parts().1
}

// ----------------------------------------------------------------------
// one-call helpers on the real code

/// Encode with a codec of `kind`/engine E; `soil`: Some(seed) = start from soiled working space
/// (not possible for Kind::Rs, which soils by a previous big round instead).
pub fn encode_with<E: Eng>(
    kind: Kind,
    k: usize,
    r: usize,
    bytes: usize,
    originals: &[Vec<u8>],
    soil: Option<u64>,
) -> Result<Vec<Vec<u8>>, Error> {
    let mut enc = make_encoder::<E>(kind, k, r, bytes, soil)?;
    for o in originals {
        enc.add(o)?;
    }
    let res = enc.encode()?;
    Ok(res.recovery_iter().map(<[u8]>::to_vec).collect())
}

pub fn make_encoder<E: Eng>(kind: Kind, k: usize, r: usize, bytes: usize, soil: Option<u64>) -> Result<AnyEnc<E>, Error> {
    match (kind, soil) {
        (_, None) => AnyEnc::<E>::new(kind, k, r, bytes, None),
        (Kind::Rs, Some(seed)) => {
            // soil through the object's own history: a bigger, fully loaded round, then reset
            let need = spec_work_blocks(kind, false, k, r, bytes).max(1);
            let (kk, l) = if need <= 60000 { (need, 1) } else { (60000, need.div_ceil(60000)) };
            let mut e = ReedSolomonEncoder::new(kk, 1, 64 * l)?;
            let mut rng = Rng::new(seed);
            let mut buf = vec![0u8; 64 * l];
            for _ in 0..kk {
                rng.fill_nonzero(&mut buf);
                e.add_original_shard(&buf)?;
            }
            e.reset(k, r, bytes)?;
            Ok(AnyEnc::Rs(e))
        }
        (_, Some(seed)) => {
            let need = spec_work_blocks(kind, false, k, r, bytes);
            AnyEnc::<E>::new(kind, k, r, bytes, Some(soiled_encoder_work(need, seed)))
        }
    }
}

pub fn make_decoder<E: Eng>(kind: Kind, k: usize, r: usize, bytes: usize, soil: Option<u64>) -> Result<AnyDec<E>, Error> {
    match (kind, soil) {
        (_, None) => AnyDec::<E>::new(kind, k, r, bytes, None),
        (Kind::Rs, Some(seed)) => {
            let need = spec_work_blocks(kind, true, k, r, bytes).max(2);
            let mut kk = pow2ceil(need.div_ceil(2));
            let mut l = 1;
            if kk > 32768 {
                l = (2 * kk).div_ceil(65536);
                kk = 32768;
            }
            let mut d = ReedSolomonDecoder::new(kk, kk, 64 * l)?;
            let mut rng = Rng::new(seed ^ 0x5011);
            let mut buf = vec![0u8; 64 * l];
            for i in 0..kk {
                rng.fill_nonzero(&mut buf);
                d.add_original_shard(i, &buf)?;
                rng.fill_nonzero(&mut buf);
                d.add_recovery_shard(i, &buf)?;
            }
            d.reset(k, r, bytes)?;
            Ok(AnyDec::Rs(d))
        }
        (_, Some(seed)) => {
            let need = spec_work_blocks(kind, true, k, r, bytes);
            AnyDec::<E>::new(kind, k, r, bytes, Some(soiled_decoder_work(need, seed)))
        }
    }
}

/// Decode: give the listed shards, return restored map.
pub fn decode_with<E: Eng>(
    kind: Kind,
    k: usize,
    r: usize,
    bytes: usize,
    originals: &[(usize, &[u8])],
    recovery: &[(usize, &[u8])],
    soil: Option<u64>,
) -> Result<BTreeMap<usize, Vec<u8>>, Error> {
    let mut dec = make_decoder::<E>(kind, k, r, bytes, soil)?;
    for (i, s) in originals {
        dec.add_original(*i, s)?;
    }
    for (i, s) in recovery {
        dec.add_recovery(*i, s)?;
    }
    let res = dec.decode()?;
    Ok(res.restored_original_iter().map(|(i, s)| (i, s.to_vec())).collect())
}

// ----------------------------------------------------------------------
// reference encode (bytes) through gfref

pub struct RefModel {
    pub f: gfref::Field,
    gens: Mutex<BTreeMap<(bool, usize, usize), std::sync::Arc<Vec<Vec<u16>>>>>,
}
impl RefModel {
    pub fn new() -> Self {
        RefModel { f: gfref::Field::new(), gens: Mutex::new(BTreeMap::new()) }
    }
    pub fn generator(&self, high: bool, k: usize, r: usize) -> std::sync::Arc<Vec<Vec<u16>>> {
        if let Some(g) = self.gens.lock().unwrap().get(&(high, k, r)) {
            return g.clone();
        }
        let g = std::sync::Arc::new(self.f.generator(high, k, r));
        self.gens.lock().unwrap().insert((high, k, r), g.clone());
        g
    }
    pub fn encode(&self, high: bool, k: usize, r: usize, originals: &[Vec<u8>]) -> Vec<Vec<u8>> {
        let g = self.generator(high, k, r);
        let syms: Vec<Vec<u16>> = originals.iter().map(|o| gfref::shard_to_symbols(o)).collect();
        self.f.encode_symbols(&g, &syms).iter().map(|s| gfref::symbols_to_shard(s)).collect()
    }
}

// ----------------------------------------------------------------------
// parallel enumeration

pub fn nthreads() -> usize {
    std::env::var("VERIF_THREADS")
        .ok()
        .and_then(|s| s.parse().ok())
        .unwrap_or_else(|| std::thread::available_parallelism().map(|n| n.get()).unwrap_or(4))
        .max(1)
}

/// Runs f(i) for i in 0..n on all cores (dynamic chunking), collecting results in index order
/// of completion-independent storage.
pub fn par_for<R: Send, F: Fn(usize) -> R + Sync>(n: usize, chunk: usize, f: F) -> Vec<R> {
    let next = AtomicUsize::new(0);
    let out: Mutex<Vec<(usize, R)>> = Mutex::new(Vec::with_capacity(n));
    let chunk = chunk.max(1);
    std::thread::scope(|s| {
        for _ in 0..nthreads().min(n.max(1)) {
            std::thread::Builder::new()
                .stack_size(16 << 20)
                .spawn_scoped(s, || loop {
                    let start = next.fetch_add(chunk, Ordering::Relaxed);
                    if start >= n {
                        break;
                    }
                    let end = (start + chunk).min(n);
                    let mut local = Vec::with_capacity(end - start);
                    for i in start..end {
                        local.push((i, f(i)));
                    }
                    out.lock().unwrap().extend(local);
                })
                .expect("spawn");
        }
    });
    let mut v = out.into_inner().unwrap();
    v.sort_by_key(|(i, _)| *i);
    v.into_iter().map(|(_, r)| r).collect()
}

pub fn hex(b: &[u8]) -> String {
    let mut s = String::with_capacity(b.len() * 2);
    for x in b.iter().take(48) {
        s.push_str(&format!("{x:02x}"));
    }
    if b.len() > 48 {
        s.push_str(&format!("..({}B)", b.len()));
    }
    s
}

pub fn fnv(b: &[u8]) -> u64 {
    let mut h = 0xcbf2_9ce4_8422_2325u64;
    for x in b {
        h = (h ^ *x as u64).wrapping_mul(0x100_0000_01b3);
    }
    h
}
