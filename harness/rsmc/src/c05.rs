//! C05 — results never depend on what the codec object did before.
//! Every sequence of d rounds on one object over a colliding configuration alphabet, with every way
//! of moving from one round to the next (explicit reset, implicit reset by dropping the result,
//! recycling the working space through into_parts/new(Some(work)) into any rate), earlier rounds
//! completed or abandoned half-way; the last round is compared with a fresh object given the same
//! inputs (differential, no expected bytes) and with the reference.
use crate::core::*;
use crate::json::J;
use crate::kv::*;
use crate::report::*;
use crate::with_engine;

type V = (String, String);

// (3,2,100) and (3,2,120): same counts, same number of 64-byte blocks, different length of the short final block
// (3,3,64): high rate with a padded first chunk although original_count >= recovery_count
// (3,2,100)/(3,2,120): same counts and block count, different short final block;
// (3,3,64): high rate with a padded first chunk although original_count >= recovery_count;
// (5,3,64): same total working-space size as (3,2,100) but a different geometry (positions x blocks)
pub const CFGS: [(usize, usize, usize); 11] = [(3, 2, 64), (2, 3, 64), (5, 3, 66), (3, 5, 130), (1, 1, 2), (3, 3, 64), (9, 2, 2), (2, 9, 2), (3, 2, 100), (3, 2, 120), (5, 3, 64)];

#[derive(Clone, Debug)]
struct Step {
    cfg: usize,
    /// how we got here from the previous round: 'n' new object (first step), 'r' reset,
    /// 'i' implicit (result dropped, same configuration), 'H'/'L'/'D' recycle into that rate
    trans: char,
    /// data id of this round
    data: u8,
    /// decoder received-set shape: 0 max loss (first recovery), 1 every other, 2 surplus (all but original 0)
    shape: u8,
    /// round abandoned after the adds (no encode/decode)
    abandoned: bool,
}

fn fmt_steps(s: &[Step]) -> String {
    s.iter().map(|s| format!("{}{}{}{}{}", (b'a' + s.cfg as u8) as char, s.trans, s.data, s.shape, if s.abandoned { 'a' } else { 'c' })).collect::<Vec<_>>().join(";")
}
fn parse_steps(s: &str) -> Vec<Step> {
    s.split(';')
        .map(|t| {
            let c: Vec<char> = t.chars().collect();
            Step { cfg: (c[0] as u8 - b'a') as usize, trans: c[1], data: c[2].to_digit(10).unwrap() as u8, shape: c[3].to_digit(10).unwrap() as u8, abandoned: c[4] == 'a' }
        })
        .collect()
}

fn round_data(k: usize, b: usize, id: u8, seed: u64) -> Vec<Vec<u8>> {
    match id {
        0 => data_dense(k, b, seed ^ 0xA),
        1 => data_dense(k, b, seed ^ 0xB),
        _ => data_ones(k, b),
    }
}

fn shape_sets(k: usize, r: usize, shape: u8) -> (Vec<usize>, Vec<usize>) {
    let m = k.min(r);
    match shape {
        0 => ((m..k).collect(), (0..m).collect()),
        1 => {
            let og: Vec<usize> = (0..k).filter(|i| i % 2 == 1).collect();
            let need = k - og.len();
            let mut rg: Vec<usize> = (0..r).rev().take(need).collect();
            rg.sort();
            if rg.len() < need {
                // not enough recovery shards for this shape: fall back to max loss
                return ((m..k).collect(), (0..m).collect());
            }
            (og, rg)
        }
        _ => ((1..k).collect(), (0..r).collect()),
    }
}

fn kind_of(c: char) -> Kind {
    match c {
        'H' => Kind::High,
        'L' => Kind::Low,
        'D' => Kind::Def,
        _ => panic!("kind char {c}"),
    }
}

/// run the sequence on one object; returns the output of the last round
fn run_seq<E: Eng>(decoder: bool, kind0: Kind, soil: Option<u64>, steps: &[Step], seed: u64, refm: &RefModel) -> Result<Vec<(usize, Vec<u8>)>, V> {
    let mut kind = kind0;
    let mut enc: Option<AnyEnc<E>> = None;
    let mut dec: Option<AnyDec<E>> = None;
    let mut last_out = Vec::new();
    for (si, st) in steps.iter().enumerate() {
        let (k, r, b) = CFGS[st.cfg];
        let ctx = |what: &str| format!("round {si} ({k},{r},{b}) {what}");
        match st.trans {
            'n' => {
                if decoder {
                    dec = Some(make_decoder::<E>(kind, k, r, b, soil).map_err(|e| (ctx("new Ok"), format!("Err({e:?})")))?);
                } else {
                    enc = Some(make_encoder::<E>(kind, k, r, b, soil).map_err(|e| (ctx("new Ok"), format!("Err({e:?})")))?);
                }
            }
            'r' => {
                if decoder {
                    dec.as_mut().unwrap().reset(k, r, b).map_err(|e| (ctx("reset Ok"), format!("Err({e:?})")))?;
                } else {
                    enc.as_mut().unwrap().reset(k, r, b).map_err(|e| (ctx("reset Ok"), format!("Err({e:?})")))?;
                }
            }
            'i' => {}
            c => {
                kind = kind_of(c);
                if decoder {
                    let w = dec.take().unwrap().into_work().unwrap();
                    dec = Some(AnyDec::<E>::new(kind, k, r, b, Some(w)).map_err(|e| (ctx("new(Some(work)) Ok"), format!("Err({e:?})")))?);
                } else {
                    let w = enc.take().unwrap().into_work().unwrap();
                    enc = Some(AnyEnc::<E>::new(kind, k, r, b, Some(w)).map_err(|e| (ctx("new(Some(work)) Ok"), format!("Err({e:?})")))?);
                }
            }
        }
        let originals = round_data(k, b, st.data, seed ^ si as u64);
        if !decoder {
            let e = enc.as_mut().unwrap();
            let n_add = if st.abandoned { (k + 1) / 2 } else { k };
            for o in originals.iter().take(n_add) {
                e.add(o).map_err(|e| (ctx("add_original_shard Ok"), format!("Err({e:?})")))?;
            }
            if !st.abandoned {
                let res = e.encode().map_err(|e| (ctx("encode Ok"), format!("Err({e:?})")))?;
                last_out = res.recovery_iter().enumerate().map(|(i, s)| (i, s.to_vec())).collect();
            }
        } else {
            let d = dec.as_mut().unwrap();
            let recovery = refm.encode(spec_is_high(kind, k, r), k, r, &originals);
            let (og, rg) = shape_sets(k, r, st.shape);
            let (og, rg) = if st.abandoned { (og[..og.len() / 2].to_vec(), rg[..(rg.len() + 1) / 2].to_vec()) } else { (og, rg) };
            for &i in &og {
                d.add_original(i, &originals[i]).map_err(|e| (ctx("add_original_shard Ok"), format!("Err({e:?})")))?;
            }
            for &j in &rg {
                d.add_recovery(j, &recovery[j]).map_err(|e| (ctx("add_recovery_shard Ok"), format!("Err({e:?})")))?;
            }
            if !st.abandoned {
                let res = d.decode().map_err(|e| (ctx("decode Ok"), format!("Err({e:?})")))?;
                last_out = res.restored_original_iter().map(|(i, s)| (i, s.to_vec())).collect();
            }
        }
    }
    Ok(last_out)
}

fn check_seq(eng: &str, decoder: bool, kind0: Kind, soil: u64, steps: &[Step], seed: u64, refm: &RefModel) -> Result<(), V> {
    let soil_o = if soil == 0 { None } else { Some(soil) };
    let res = guard(|| -> Result<(), V> {
        with_engine!(eng, E => {
            let got = run_seq::<E>(decoder, kind0, soil_o, steps, seed, refm)?;
            // fresh twin: only the last round, same kind as the object has at the end
            let mut kind = kind0;
            for s in steps { if matches!(s.trans, 'H' | 'L' | 'D') { kind = kind_of(s.trans); } }
            let last = steps.last().unwrap();
            let mut fresh_step = last.clone();
            fresh_step.trans = 'n';
            // the data of the last round depends on its position in the sequence: keep it
            let si = steps.len() - 1;
            let fresh = {
                let (k, r, b) = CFGS[last.cfg];
                let originals = round_data(k, b, last.data, seed ^ si as u64);
                if !decoder {
                    let mut e = AnyEnc::<E>::new(kind, k, r, b, None).map_err(|e| ("fresh new Ok".to_string(), format!("{e:?}")))?;
                    for o in &originals { e.add(o).map_err(|e| ("fresh add Ok".to_string(), format!("{e:?}")))?; }
                    let res = e.encode().map_err(|e| ("fresh encode Ok".to_string(), format!("{e:?}")))?;
                    let out: Vec<(usize, Vec<u8>)> = res.recovery_iter().enumerate().map(|(i, s)| (i, s.to_vec())).collect();
                    // and the reference
                    let want = refm.encode(spec_is_high(kind, k, r), k, r, &originals);
                    let want: Vec<(usize, Vec<u8>)> = want.into_iter().enumerate().collect();
                    if out != want {
                        return Err(("fresh object output == reference".to_string(), "differs (C02 territory)".to_string()));
                    }
                    out
                } else {
                    let recovery = refm.encode(spec_is_high(kind, k, r), k, r, &originals);
                    let (og, rg) = shape_sets(k, r, last.shape);
                    let mut d = AnyDec::<E>::new(kind, k, r, b, None).map_err(|e| ("fresh new Ok".to_string(), format!("{e:?}")))?;
                    for &i in &og { d.add_original(i, &originals[i]).map_err(|e| ("fresh add Ok".to_string(), format!("{e:?}")))?; }
                    for &j in &rg { d.add_recovery(j, &recovery[j]).map_err(|e| ("fresh add Ok".to_string(), format!("{e:?}")))?; }
                    let res = d.decode().map_err(|e| ("fresh decode Ok".to_string(), format!("{e:?}")))?;
                    let out: Vec<(usize, Vec<u8>)> = res.restored_original_iter().map(|(i, s)| (i, s.to_vec())).collect();
                    let want: Vec<(usize, Vec<u8>)> = (0..k).filter(|i| !og.contains(i)).map(|i| (i, originals[i].clone())).collect();
                    if out != want {
                        return Err(("fresh object output == missing originals".to_string(), "differs (C01 territory)".to_string()));
                    }
                    out
                }
            };
            if got != fresh {
                let i = got.iter().zip(&fresh).position(|(a, b)| a != b);
                return Err((
                    format!("last round output == fresh object's ({} shards, first {})", fresh.len(), fresh.first().map(|(i, s)| format!("{i}:{}", hex(s))).unwrap_or_default()),
                    format!("{} shards, first difference at position {i:?}: {}", got.len(), i.and_then(|i| got.get(i)).map(|(i, s)| format!("{i}:{}", hex(s))).unwrap_or_default()),
                ));
            }
            Ok(())
        })
    });
    match res {
        Ok(r) => r,
        Err(p) => Err(("no panic".into(), format!("PANIC: {p}"))),
    }
}

pub fn replay(_ctx: &Ctx, case: &str) -> Result<(), String> {
    let kv = Kv::parse(case)?;
    let refm = RefModel::new();
    check_seq(kv.str("eng"), kv.str("dir") == "dec", Kind::parse(kv.str("kind")), kv.u64("soil"), &parse_steps(kv.str("steps")), kv.u64("seed"), &refm).map_err(|(e, o)| format!("expected {e}; observed {o}"))
}

/// depth-3 sequences over a reduced alphabet (size-class changes with equal counts, one rate switch,
/// one padded configuration), used in the quick tier where the full depth-3 space is too big
fn gen_reduced3(decoder: bool, kind0: Kind) -> Vec<Vec<Step>> {
    let cfgs = [0usize, 2, 4, 5, 8, 9, 10]; // (3,2,64) (5,3,66) (1,1,2) (3,3,64) (3,2,100) (3,2,120) (5,3,64)
    let trans: Vec<char> = if kind0 == Kind::Rs { vec!['r', 'i'] } else { vec!['r', 'i', 'D', 'L'] };
    let mut out = Vec::new();
    for &c0 in &cfgs {
        for &c1 in &cfgs {
            for &t1 in &trans {
                if t1 == 'i' && c1 != c0 {
                    continue;
                }
                for &c2 in &cfgs {
                    for &t2 in &trans {
                        if t2 == 'i' && c2 != c1 {
                            continue;
                        }
                        for data in 0..2u8 {
                            let shape = if decoder { data + 1 } else { 0 };
                            out.push(vec![
                                Step { cfg: c0, trans: 'n', data: 0, shape: 0, abandoned: false },
                                Step { cfg: c1, trans: t1, data: 1, shape: 2, abandoned: false },
                                Step { cfg: c2, trans: t2, data, shape, abandoned: false },
                            ]);
                        }
                    }
                }
            }
        }
    }
    out
}

fn gen_sequences(decoder: bool, kind0: Kind, d: usize, thorough: bool) -> Vec<Vec<Step>> {
    // transitions available
    let mut out: Vec<Vec<Step>> = Vec::new();
    let trans: Vec<char> = if kind0 == Kind::Rs { vec!['r', 'i'] } else { vec!['r', 'i', 'H', 'L', 'D'] };
    // recursive build
    fn rec(cur: &mut Vec<Step>, d: usize, decoder: bool, trans: &[char], thorough: bool, out: &mut Vec<Vec<Step>>) {
        let pos = cur.len();
        let last = pos + 1 == d;
        for cfg in 0..CFGS.len() {
            let tlist: Vec<char> = if pos == 0 { vec!['n'] } else { trans.to_vec() };
            for &t in &tlist {
                if t == 'i' && (cur[pos - 1].cfg != cfg || cur[pos - 1].abandoned) {
                    continue; // implicit reset keeps the configuration and needs a completed round
                }
                // earlier rounds: fixed data/shape, completed or abandoned; last round: every data x shape
                let variants: Vec<(u8, u8, bool)> = if last {
                    let mut v = Vec::new();
                    for data in 0..3u8 {
                        for shape in 0..(if decoder { 3u8 } else { 1 }) {
                            v.push((data, shape, false));
                        }
                    }
                    v
                } else if thorough || pos == 0 {
                    vec![(0, 0, false), (1, 2, true)]
                } else {
                    vec![(0, 0, false)]
                };
                for (data, shape, abandoned) in variants {
                    cur.push(Step { cfg, trans: t, data, shape, abandoned });
                    if last {
                        out.push(cur.clone());
                    } else {
                        rec(cur, d, decoder, trans, thorough, out);
                    }
                    cur.pop();
                }
            }
        }
    }
    let mut cur = Vec::new();
    rec(&mut cur, d, decoder, &trans, thorough, &mut out);
    out
}

pub fn run(ctx: &Ctx, rep: &mut Report) {
    let refm = RefModel::new();
    let seed = ctx.seed;
    rep.rule = "case = sequence of d rounds on one object: configurations from an 8-member colliding alphabet (shrinking/growing counts, sizes 2/64/66/130, both rates), transitions reset / implicit / recycle into {high,low,default}, earlier rounds completed or abandoned after half of the adds, last round over 3 data sets (x3 received-set shapes for decoders), object fresh or soiled; oracle = fresh object with the last round only (and the reference); non-trivial = every sequence with d>=2; distinct by (direction, start kind, engine, soil, sequence)".into();
    rep.assume("soiled start = working space filled with non-zero bytes, full bitmap and maximal counters through the public API");
    let mut jobs: Vec<(&'static str, bool, Kind, u64, Vec<Step>)> = Vec::new();
    let dmax_all = if ctx.thorough() { 3 } else { 2 };
    for decoder in [false, true] {
        for kind0 in [Kind::Rs, Kind::Def, Kind::High, Kind::Low] {
            let engs: Vec<&'static str> = if kind0 == Kind::Rs { vec!["default"] } else if ctx.thorough() { engines_all().into_iter().filter(|e| *e != "default").collect() } else { engines_fast() };
            for (ei, eng) in engs.iter().enumerate() {
                for d in 1..=dmax_all {
                    // depth 3 only on the first fast engine (nosimd) and the default engine
                    if d == 3 && !(ei == 0 && *eng != "naive" || *eng == "nosimd" || *eng == "default") {
                        continue;
                    }
                    for seq in gen_sequences(decoder, kind0, d, ctx.thorough() && d < 3) {
                        for soil in [0u64, seed | 1] {
                            if d == 3 && soil == 0 {
                                continue;
                            }
                            jobs.push((eng, decoder, kind0, soil, seq.clone()));
                        }
                    }
                }
            }
        }
    }
    if !ctx.thorough() {
        for decoder in [false, true] {
            for kind0 in [Kind::Rs, Kind::Def, Kind::High, Kind::Low] {
                let eng: &'static str = if kind0 == Kind::Rs { "default" } else { "nosimd" };
                for seq in gen_reduced3(decoder, kind0) {
                    jobs.push((eng, decoder, kind0, seed | 1, seq));
                }
            }
        }
    }
    rep.bound("depth", J::s(format!("d <= {dmax_all} (d = 3: nosimd and default engine, soiled start, earlier rounds completed; quick: d = 3 over a reduced 7-member alphabet)")));
    rep.bound("alphabet", J::s(format!("{CFGS:?}")));
    let results: Vec<Result<(), V>> = par_for(jobs.len(), 16, |i| {
        let (eng, decoder, kind0, soil, seq) = &jobs[i];
        check_seq(eng, *decoder, *kind0, *soil, seq, seed, &refm)
    });
    let mut by_depth = [0u64; 4];
    for ((eng, decoder, kind0, soil, seq), res) in jobs.iter().zip(results) {
        rep.states += seq.len() as u64;
        rep.transitions += seq.len() as u64;
        rep.traces += 1;
        rep.evaluations += 1;
        by_depth[seq.len()] += 1;
        if seq.len() >= 2 {
            rep.distinct += 1;
        }
        if let Err((exp, obs)) = res {
            let kv = Kv::new().with("eng", eng).with("dir", if *decoder { "dec" } else { "enc" }).with("kind", kind0.name()).with("soil", soil).with("seed", seed).with("steps", fmt_steps(seq));
            rep.violation(Violation { key: format!("{}-{}-{}-soil{}-{}", if *decoder { "dec" } else { "enc" }, kind0.name(), eng, (*soil != 0) as u8, fmt_steps(seq)), case: kv.dump(), expected: exp, observed: obs });
        }
    }
    rep.extra("sequences_by_depth", J::Arr(by_depth.iter().map(|x| J::i(*x)).collect()));
    for i in [0, jobs.len() / 3, jobs.len() / 2, jobs.len() - 1] {
        let (eng, decoder, kind0, soil, seq) = &jobs[i];
        rep.sample(Kv::new().with("eng", eng).with("dir", if *decoder { "dec" } else { "enc" }).with("kind", kind0.name()).with("soil", soil).with("seed", seed).with("steps", fmt_steps(seq)).dump());
    }
}
