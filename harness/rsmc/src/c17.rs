use crate::report::*;
use std::alloc::{GlobalAlloc, Layout, System};
pub struct CountingAlloc;
unsafe impl GlobalAlloc for CountingAlloc {
    unsafe fn alloc(&self, l: Layout) -> *mut u8 { System.alloc(l) }
    unsafe fn dealloc(&self, p: *mut u8, l: Layout) { System.dealloc(p, l) }
}
pub fn run(_ctx: &Ctx, rep: &mut Report) { rep.machinery_errors.push("not implemented".into()); }
pub fn replay(_ctx: &Ctx, _case: &str) -> Result<(), String> { Err("not implemented".into()) }
