//! C17 — working space is reused in place; rounds and non-growing resets never allocate
//! shard-proportional memory.
//! Monitor: counting global allocator with a per-thread recorder. Every history of <= d steps
//! (rounds, abandoned rounds, resets, recycling through into_parts/new(Some(work)) into any rate)
//! after constructing the object at the largest member of the alphabet is executed twice, at scale A
//! and at scale B (all shard sizes doubled, or all counts doubled); the bytes allocated inside the
//! measured region must not grow with the scale. A constant-size allocation (whatever its size) is
//! therefore never an alarm; memory proportional to shard size or shard count is.
use std::alloc::{GlobalAlloc, Layout, System};
use std::cell::Cell;

use crate::core::*;
use crate::json::J;
use crate::kv::*;
use crate::report::*;
use crate::with_engine;

// ---------------------------------------------------------------- allocator

pub struct CountingAlloc;

#[derive(Clone, Copy, Default)]
pub struct Rec {
    pub enabled: bool,
    pub total: u64,
    pub max: usize,
    pub count: u64,
}

thread_local! {
    static REC: Cell<Rec> = const { Cell::new(Rec { enabled: false, total: 0, max: 0, count: 0 }) };
}

#[inline]
fn note(size: usize) {
    let _ = REC.try_with(|r| {
        let mut v = r.get();
        if v.enabled {
            v.total += size as u64;
            v.count += 1;
            if size > v.max {
                v.max = size;
            }
            r.set(v);
        }
    });
}

unsafe impl GlobalAlloc for CountingAlloc {
    unsafe fn alloc(&self, l: Layout) -> *mut u8 {
        note(l.size());
        System.alloc(l)
    }
    unsafe fn alloc_zeroed(&self, l: Layout) -> *mut u8 {
        note(l.size());
        System.alloc_zeroed(l)
    }
    unsafe fn realloc(&self, p: *mut u8, l: Layout, new_size: usize) -> *mut u8 {
        if new_size > l.size() {
            note(new_size);
        }
        System.realloc(p, l, new_size)
    }
    unsafe fn dealloc(&self, p: *mut u8, l: Layout) {
        System.dealloc(p, l)
    }
}

pub fn measure<T>(f: impl FnOnce() -> T) -> (T, Rec) {
    REC.with(|r| r.set(Rec { enabled: true, total: 0, max: 0, count: 0 }));
    let out = f();
    let rec = REC.with(|r| {
        let v = r.get();
        r.set(Rec::default());
        v
    });
    (out, rec)
}

// ---------------------------------------------------------------- histories

/// configuration members: (k, r, size class) ; size class 0 = big shard, 1 = small (66 at scale 1)
#[derive(Clone, Copy, Debug, PartialEq)]
struct Member {
    k: usize,
    r: usize,
    small: bool,
}

#[derive(Clone, Debug, PartialEq)]
enum Step {
    Round,
    Abandon,
    Reset(usize),
    Recycle(Kind, usize),
    /// positive control only: reset to a configuration that needs more than is held
    Grow,
}

fn fmt_steps(s: &[Step]) -> String {
    if s.is_empty() {
        return "-".into();
    }
    s.iter()
        .map(|x| match x {
            Step::Round => "round".to_string(),
            Step::Abandon => "abandon".to_string(),
            Step::Reset(m) => format!("reset{m}"),
            Step::Recycle(k, m) => format!("rec{}{m}", k.name()),
            Step::Grow => "grow".to_string(),
        })
        .collect::<Vec<_>>()
        .join(",")
}
fn parse_steps(s: &str) -> Vec<Step> {
    if s == "-" {
        return vec![];
    }
    s.split(',')
        .map(|t| {
            if t == "round" {
                Step::Round
            } else if t == "abandon" {
                Step::Abandon
            } else if t == "grow" {
                Step::Grow
            } else if let Some(m) = t.strip_prefix("reset") {
                Step::Reset(m.parse().unwrap())
            } else if let Some(rest) = t.strip_prefix("rec") {
                for kind in [Kind::High, Kind::Low, Kind::Def] {
                    if let Some(m) = rest.strip_prefix(kind.name()) {
                        return Step::Recycle(kind, m.parse().unwrap());
                    }
                }
                panic!("step {t}")
            } else {
                panic!("step {t}")
            }
        })
        .collect()
}

struct Family {
    name: &'static str,
    members: Vec<Member>,
    /// (k, r, bytes) of member m at scale s (s = 1 or 2)
    cfg: fn(&Member, usize) -> (usize, usize, usize),
    /// minimal growth of allocated bytes between the scales that counts as proportional
    slack: fn(&[Member]) -> u64,
    /// warm-up visits only member 0 (in every rate), which needs at least as much working space as any
    /// other member by the documented layout (positions x ceil(bytes/64), bitmap positions); otherwise
    /// the warm-up visits every member and the object holds whatever the implementation asked for
    dominant_first: bool,
}

fn shard_family() -> Family {
    Family {
        name: "shard-size",
        members: vec![
            Member { k: 8, r: 8, small: false },
            Member { k: 9, r: 2, small: false },
            Member { k: 2, r: 9, small: false },
            Member { k: 3, r: 5, small: false },
            Member { k: 1, r: 1, small: false },
            Member { k: 8, r: 8, small: true },
            Member { k: 2, r: 9, small: true },
            Member { k: 5, r: 3, small: true },
        ],
        cfg: |m, s| (m.k, m.r, if m.small { 66 * s } else { 32768 * s }),
        // half of one big shard at scale 1
        slack: |_| 16384,
        dominant_first: false,
    }
}

/// working spaces of several MiB (thresholds such as "only above 1 MiB / 4 MiB" exist in allocators
/// and in plausible optimisations)
fn big_family() -> Family {
    Family {
        name: "big-shard-size",
        members: vec![
            Member { k: 8, r: 8, small: false },
            Member { k: 2, r: 9, small: false },
            Member { k: 4, r: 4, small: false },
            Member { k: 1, r: 1, small: false },
            Member { k: 8, r: 8, small: true },
        ],
        cfg: |m, s| (m.k, m.r, if m.small { 4160 * s } else { 524288 * s }),
        slack: |_| 262144,
        dominant_first: false,
    }
}

fn count_family() -> Family {
    Family {
        name: "shard-count",
        members: vec![
            Member { k: 1024, r: 1024, small: false },
            Member { k: 1500, r: 100, small: false },
            Member { k: 100, r: 1500, small: false },
            Member { k: 600, r: 700, small: false },
            Member { k: 1024, r: 1024, small: true },
            Member { k: 3, r: 5, small: true },
        ],
        cfg: |m, s| (if m.small && m.k < 10 { m.k } else { m.k * s }, if m.small && m.k < 10 { m.r } else { m.r * s }, if m.small { 2 } else { 64 }),
        // a quarter of the bitmap growth of the biggest member (2048 extra positions / 8 bits = 256 bytes -> 64)
        slack: |_| 64,
        dominant_first: false,
    }
}

/// equal block counts with and without a short final block: member 0 (190-byte shards, 3 blocks) needs by
/// the documented layout at least what every other member needs (192 bytes = 3 blocks, 128 = 2, ...), so
/// after a warm-up with member 0 alone nothing may be allocated - an implementation that asks for one
/// block more for sizes that are multiples of 64 would otherwise hide behind its own warm-up
fn block_family() -> Family {
    Family {
        name: "block-count",
        members: vec![
            Member { k: 16, r: 16, small: false },
            Member { k: 16, r: 16, small: true },
            Member { k: 2, r: 9, small: true },
            Member { k: 9, r: 2, small: true },
            Member { k: 16, r: 5, small: true },
            Member { k: 3, r: 3, small: false },
        ],
        cfg: |m, s| (m.k, m.r, if m.small { 192 * s } else { 190 * s }),
        slack: |_| 64,
        dominant_first: true,
    }
}

/// received-map positions by the documented layout: member 0 (many originals, few recovery shards) has at least
/// as many work positions as every other member in both rates, although the others have more recovery shards
/// or both counts in one power-of-two class; after a warm-up with member 0 alone a reset to any of them must
/// not allocate - an implementation that sizes the map by an over-estimate (largest base + largest count)
/// would otherwise hide behind its own warm-up
fn bitmap_family() -> Family {
    Family {
        name: "bitmap-layout",
        members: vec![
            Member { k: 1568, r: 24, small: false },
            Member { k: 513, r: 1000, small: false },
            Member { k: 1000, r: 500, small: false },
            Member { k: 570, r: 1000, small: false },
            Member { k: 33, r: 31, small: false },
        ],
        cfg: |m, s| (m.k * s, m.r * s, 2),
        slack: |_| 64,
        dominant_first: true,
    }
}

fn need(kind: Kind, decoder: bool, k: usize, r: usize, b: usize) -> (usize, usize) {
    let blocks = spec_work_blocks(kind, decoder, k, r, b);
    let hi = spec_is_high(kind, k, r);
    let bits = if !decoder {
        0
    } else if hi {
        pow2ceil(r) + k
    } else {
        pow2ceil(k) + r
    };
    (blocks, bits)
}

/// run one history at one scale; returns allocation record of the measured region
fn run_history<E: Eng>(fam: &Family, decoder: bool, kind0: Kind, steps: &[Step], scale: usize, seed: u64) -> Result<Rec, String> {
    // construct at a configuration that dominates every member for every kind: do it by
    // constructing the largest and then (outside the measured region) resetting through all members
    let mut kind = kind0;
    let cfgs: Vec<(usize, usize, usize)> = fam.members.iter().map(|m| (fam.cfg)(m, scale)).collect();
    let maxb = cfgs.iter().map(|c| c.2).max().unwrap();
    let maxk = cfgs.iter().map(|c| c.0.max(c.1)).max().unwrap();
    let mut rng = Rng::new(seed);
    let mut shard = vec![0u8; maxb * 2];
    rng.fill(&mut shard);
    let _ = maxk;
    let mut enc: Option<AnyEnc<E>> = None;
    let mut dec: Option<AnyDec<E>> = None;
    // warm-up (not measured): visit every member in every rate so that the object holds the maximum
    let kinds: Vec<Kind> = if kind0 == Kind::Rs { vec![Kind::Rs] } else { vec![Kind::High, Kind::Low, Kind::Def, kind0] };
    if fam.dominant_first {
        // harness self-check: member 0 dominates by the documented layout in every kind
        let (k0, r0, b0) = cfgs[0];
        let dom = |kd: Kind| [Kind::High, Kind::Low].iter().map(|k0k| need(if kd == Kind::Rs || kd == Kind::Def { *k0k } else { kd }, decoder, k0, r0, b0)).fold((usize::MAX, usize::MAX), |a, n| (a.0.min(n.0), a.1.min(n.1)));
        for &(k, r, b) in &cfgs[1..] {
            for kd in [Kind::High, Kind::Low] {
                let n = need(kd, decoder, k, r, b);
                let d0 = dom(kd);
                assert!(n.0 <= d0.0 && n.1 <= d0.1, "family {}: member ({k},{r},{b}) needs {n:?} in {kd:?}, more than member 0 holds {d0:?}", fam.name);
            }
        }
    }
    for (ki, kd) in kinds.iter().enumerate() {
        for (mi, &(k, r, b)) in cfgs.iter().enumerate() {
            if fam.dominant_first && mi > 0 {
                continue;
            }
            if decoder {
                if ki == 0 && mi == 0 {
                    dec = Some(AnyDec::<E>::new(*kd, k, r, b, None).map_err(|e| format!("{e:?}"))?);
                } else if *kd == Kind::Rs {
                    dec.as_mut().unwrap().reset(k, r, b).map_err(|e| format!("{e:?}"))?;
                } else {
                    let w = dec.take().unwrap().into_work().unwrap();
                    dec = Some(AnyDec::<E>::new(*kd, k, r, b, Some(w)).map_err(|e| format!("{e:?}"))?);
                }
            } else if ki == 0 && mi == 0 {
                enc = Some(AnyEnc::<E>::new(*kd, k, r, b, None).map_err(|e| format!("{e:?}"))?);
            } else if *kd == Kind::Rs {
                enc.as_mut().unwrap().reset(k, r, b).map_err(|e| format!("{e:?}"))?;
            } else {
                let w = enc.take().unwrap().into_work().unwrap();
                enc = Some(AnyEnc::<E>::new(*kd, k, r, b, Some(w)).map_err(|e| format!("{e:?}"))?);
            }
        }
    }
    // start configuration = member 0 in kind0
    let (mut k, mut r, mut b) = cfgs[0];
    if decoder {
        if kind0 == Kind::Rs {
            dec.as_mut().unwrap().reset(k, r, b).map_err(|e| format!("{e:?}"))?;
        } else {
            let w = dec.take().unwrap().into_work().unwrap();
            dec = Some(AnyDec::<E>::new(kind0, k, r, b, Some(w)).map_err(|e| format!("{e:?}"))?);
        }
    } else if kind0 == Kind::Rs {
        enc.as_mut().unwrap().reset(k, r, b).map_err(|e| format!("{e:?}"))?;
    } else {
        let w = enc.take().unwrap().into_work().unwrap();
        enc = Some(AnyEnc::<E>::new(kind0, k, r, b, Some(w)).map_err(|e| format!("{e:?}"))?);
    }
    let mut sink = 0u64;
    let (res, rec) = measure(|| -> Result<(), String> {
        for st in steps {
            match st {
                Step::Round | Step::Abandon => {
                    let full = *st == Step::Round;
                    if decoder {
                        let d = dec.as_mut().unwrap();
                        // arbitrary (inconsistent) shard contents are fine: allocation behaviour only
                        let m = k.min(r);
                        let n_r = if full { m } else { m.div_ceil(2) };
                        for j in 0..n_r {
                            d.add_recovery(j, &shard[..b]).map_err(|e| format!("{e:?}"))?;
                        }
                        let upto = if full { k } else { m + (k - m) / 2 };
                        for i in m..upto {
                            d.add_original(i, &shard[..b]).map_err(|e| format!("{e:?}"))?;
                        }
                        if full {
                            let res = d.decode().map_err(|e| format!("{e:?}"))?;
                            for (i, s) in res.restored_original_iter() {
                                sink = sink.wrapping_add(i as u64 + s[0] as u64 + s.len() as u64);
                            }
                            if let Some(s) = res.restored_original(0) {
                                sink = sink.wrapping_add(s[s.len() - 1] as u64);
                            }
                        }
                    } else {
                        let e = enc.as_mut().unwrap();
                        let n_add = if full { k } else { k.div_ceil(2) };
                        for _ in 0..n_add {
                            e.add(&shard[..b]).map_err(|e| format!("{e:?}"))?;
                        }
                        if full {
                            let res = e.encode().map_err(|e| format!("{e:?}"))?;
                            for s in res.recovery_iter() {
                                sink = sink.wrapping_add(s[0] as u64 + s.len() as u64);
                            }
                            if let Some(s) = res.recovery(0) {
                                sink = sink.wrapping_add(s[s.len() - 1] as u64);
                            }
                        }
                    }
                }
                Step::Reset(m) => {
                    (k, r, b) = cfgs[*m];
                    if decoder {
                        dec.as_mut().unwrap().reset(k, r, b).map_err(|e| format!("{e:?}"))?;
                    } else {
                        enc.as_mut().unwrap().reset(k, r, b).map_err(|e| format!("{e:?}"))?;
                    }
                }
                Step::Recycle(kd, m) => {
                    (k, r, b) = cfgs[*m];
                    kind = *kd;
                    if decoder {
                        let w = dec.take().unwrap().into_work().unwrap();
                        dec = Some(AnyDec::<E>::new(kind, k, r, b, Some(w)).map_err(|e| format!("{e:?}"))?);
                    } else {
                        let w = enc.take().unwrap().into_work().unwrap();
                        enc = Some(AnyEnc::<E>::new(kind, k, r, b, Some(w)).map_err(|e| format!("{e:?}"))?);
                    }
                }
                Step::Grow => {
                    // needs more than any member: twice the biggest shard size (positive control)
                    let (k0, r0, _) = cfgs[0];
                    (k, r, b) = (k0 * 2, r0 * 2, maxb * 2);
                    if decoder {
                        dec.as_mut().unwrap().reset(k0 * 2, r0 * 2, maxb * 2).map_err(|e| format!("{e:?}"))?;
                    } else {
                        enc.as_mut().unwrap().reset(k0 * 2, r0 * 2, maxb * 2).map_err(|e| format!("{e:?}"))?;
                    }
                }
            }
        }
        Ok(())
    });
    std::hint::black_box(sink);
    let _ = need;
    res?;
    Ok(rec)
}

fn check_history(fam: &Family, eng: &str, decoder: bool, kind0: Kind, steps: &[Step], seed: u64) -> Result<(Rec, Rec), (String, String)> {
    let run = |scale: usize| -> Result<Rec, (String, String)> {
        match guard(|| with_engine!(eng, E => run_history::<E>(fam, decoder, kind0, steps, scale, seed))) {
            Ok(Ok(r)) => Ok(r),
            Ok(Err(e)) => Err(("every step of the history succeeds".into(), e)),
            Err(p) => Err(("no panic".into(), format!("PANIC: {p}"))),
        }
    };
    let a = run(1)?;
    let b = run(2)?;
    let slack = (fam.slack)(&fam.members);
    if b.total >= a.total + slack {
        return Err((
            format!("bytes allocated in the measured region do not grow with the {} ({} B at scale 1, {} allocations, largest {} B)", fam.name, a.total, a.count, a.max),
            format!("{} B at scale 2 ({} allocations, largest {} B): at least {} B of {}-proportional memory", b.total, b.count, b.max, b.total - a.total, fam.name),
        ));
    }
    Ok((a, b))
}

fn family_by_name(n: &str) -> Family {
    if n == "shard-size" {
        shard_family()
    } else if n == "big-shard-size" {
        big_family()
    } else if n == "block-count" {
        block_family()
    } else if n == "bitmap-layout" {
        bitmap_family()
    } else {
        count_family()
    }
}

pub fn replay(_ctx: &Ctx, case: &str) -> Result<(), String> {
    let kv = Kv::parse(case)?;
    let fam = family_by_name(kv.str("family"));
    check_history(&fam, kv.str("eng"), kv.str("dir") == "dec", Kind::parse(kv.str("kind")), &parse_steps(kv.str("steps")), kv.u64("seed")).map(|_| ()).map_err(|(e, o)| format!("expected {e}; observed {o}"))
}

fn gen(fam: &Family, kind0: Kind, d: usize) -> Vec<Vec<Step>> {
    let mut alphabet: Vec<Step> = vec![Step::Round, Step::Abandon];
    for m in 0..fam.members.len() {
        alphabet.push(Step::Reset(m));
    }
    if kind0 != Kind::Rs {
        for kind in [Kind::High, Kind::Low, Kind::Def] {
            for m in 0..fam.members.len() {
                alphabet.push(Step::Recycle(kind, m));
            }
        }
    }
    let mut out: Vec<Vec<Step>> = Vec::new();
    let mut level: Vec<Vec<Step>> = vec![vec![]];
    for _ in 0..d {
        let mut next = Vec::new();
        for s in &level {
            for a in &alphabet {
                // an abandoned round directly followed by a round would exceed the counts: skip
                if matches!(s.last(), Some(Step::Abandon)) && matches!(a, Step::Round | Step::Abandon) {
                    continue;
                }
                let mut t = s.clone();
                t.push(a.clone());
                next.push(t);
            }
        }
        out.extend(next.iter().cloned());
        level = next;
    }
    // every history ends with a completed round so that the final configuration is really used
    for h in out.iter_mut() {
        if !matches!(h.last(), Some(Step::Round)) {
            if matches!(h.last(), Some(Step::Abandon)) {
                h.pop();
            }
            h.push(Step::Round);
        }
    }
    out.sort_by_key(|h| (h.len(), fmt_steps(h)));
    out.dedup();
    out
}

pub fn run(ctx: &Ctx, rep: &mut Report) {
    let seed = ctx.seed;
    // tables are process-wide one-time allocations: touch them before anything is measured
    let _ = (&*reed_solomon_simd::engine::tables::LOG_WALSH, &*reed_solomon_simd::engine::tables::MUL16, &*reed_solomon_simd::engine::tables::MUL128, &*reed_solomon_simd::engine::tables::SKEW);
    rep.rule = "case = (family, direction, start kind, engine, history of <= d steps over {round, abandoned round, reset to any member, recycle into {high,low,default} at any member}, closed by a completed round); the object first visits every member in every rate (not measured) so it holds the maximum (families block-count and bitmap-layout: only the member that dominates by the documented layout, positions x ceil(bytes/64)); measured region = the history, executed at scale 1 and scale 2 (shard sizes doubled / counts doubled); bytes allocated there must not grow with the scale; non-trivial = histories containing a reset or recycle; distinct by (family,direction,kind,engine,history)".into();
    rep.assume("allocation = calls of the global allocator on the measuring thread (alloc, alloc_zeroed, growing realloc); shard data and result reading use borrowed slices only");
    rep.assume("criterion is growth with scale, so constant-size allocations of any size are never reported");
    let d = if ctx.thorough() { 3 } else { 2 };
    rep.bound("depth", J::i(d));
    let mut jobs: Vec<(&'static str, bool, Kind, &'static str, Vec<Step>)> = Vec::new();
    for famname in ["shard-size", "shard-count", "big-shard-size", "block-count", "bitmap-layout"] {
        let fam = family_by_name(famname);
        for decoder in [false, true] {
            for kind0 in [Kind::Rs, Kind::Def, Kind::High, Kind::Low] {
                if famname == "big-shard-size" && !ctx.thorough() && (kind0 == Kind::High || kind0 == Kind::Low) {
                    continue;
                }
                let eng: &'static str = if kind0 == Kind::Rs { "default" } else { "nosimd" };
                let dd = if famname != "shard-size" { d.min(2) } else { d };
                for h in gen(&fam, kind0, dd) {
                    if famname == "shard-count" && !ctx.thorough() && h.len() > 2 {
                        continue;
                    }
                    jobs.push((famname, decoder, kind0, eng, h));
                }
                if ctx.thorough() && kind0 == Kind::Def && famname == "shard-size" {
                    for h in gen(&fam, kind0, 2) {
                        jobs.push((famname, decoder, kind0, "default", h));
                    }
                }
            }
        }
    }
    let results: Vec<Result<(Rec, Rec), (String, String)>> = par_for(jobs.len(), 4, |i| {
        let (famname, decoder, kind0, eng, h) = &jobs[i];
        check_history(&family_by_name(famname), eng, *decoder, *kind0, h, seed)
    });
    let mut max_total = 0u64;
    for ((famname, decoder, kind0, eng, h), res) in jobs.iter().zip(results) {
        rep.states += h.len() as u64 + 1;
        rep.transitions += 2 * h.len() as u64;
        rep.traces += 2;
        rep.evaluations += 2;
        if h.iter().any(|s| matches!(s, Step::Reset(_) | Step::Recycle(_, _))) {
            rep.distinct += 1;
        }
        match res {
            Ok((a, b)) => max_total = max_total.max(a.total).max(b.total),
            Err((exp, obs)) => {
                let kv = Kv::new().with("family", famname).with("eng", eng).with("dir", if *decoder { "dec" } else { "enc" }).with("kind", kind0.name()).with("steps", fmt_steps(h)).with("seed", seed);
                rep.violation(Violation { key: format!("{famname}-{}-{}-{}-{}", if *decoder { "dec" } else { "enc" }, kind0.name(), eng, fmt_steps(h)), case: kv.dump(), expected: exp, observed: obs });
            }
        }
    }
    rep.extra("largest_total_bytes_allocated_in_any_measured_region", J::i(max_total));
    // positive controls: growing beyond what is held must be seen by the monitor
    for famname in ["shard-size", "shard-count", "big-shard-size", "block-count"] {
        let fam = family_by_name(famname);
        for decoder in [false, true] {
            match check_history(&fam, "nosimd", decoder, Kind::Def, &[Step::Grow, Step::Round], seed) {
                Err((_, obs)) if obs.contains("proportional") => {}
                other => rep.machinery_errors.push(format!("positive control failed ({famname}, decoder={decoder}): growing reset not seen by the allocation monitor: {:?}", other.map(|(a, b)| (a.total, b.total)))),
            }
        }
    }
    rep.extra("positive_controls", J::s("growing reset reported as scale-proportional allocation in 8/8 controls"));
    for i in [0, jobs.len() / 3, jobs.len() / 2, jobs.len() - 1] {
        let (famname, decoder, kind0, eng, h) = &jobs[i];
        rep.sample(Kv::new().with("family", famname).with("eng", eng).with("dir", if *decoder { "dec" } else { "enc" }).with("kind", kind0.name()).with("steps", fmt_steps(h)).dump());
    }
}
