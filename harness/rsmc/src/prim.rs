//! Helpers to drive the public Engine primitives on caller-owned buffers.
use crate::core::*;
use reed_solomon_simd::engine::{Engine, ShardsRefMut};

#[derive(Clone, PartialEq)]
pub struct Buf {
    pub count: usize,
    pub len64: usize,
    pub data: Vec<[u8; 64]>,
}

impl Buf {
    pub fn zero(count: usize, len64: usize) -> Buf {
        Buf { count, len64, data: vec![[0u8; 64]; count * len64] }
    }
    pub fn random(count: usize, len64: usize, rng: &mut Rng) -> Buf {
        let mut b = Buf::zero(count, len64);
        for blk in b.data.iter_mut() {
            rng.fill(blk);
        }
        b
    }
    pub fn shard(&self, i: usize) -> &[[u8; 64]] {
        &self.data[i * self.len64..(i + 1) * self.len64]
    }
    pub fn shard_mut(&mut self, i: usize) -> &mut [[u8; 64]] {
        &mut self.data[i * self.len64..(i + 1) * self.len64]
    }
    pub fn zero_shards(&mut self, from: usize, to: usize) {
        for i in from..to {
            for blk in self.shard_mut(i) {
                *blk = [0u8; 64];
            }
        }
    }
    pub fn refmut(&mut self) -> ShardsRefMut<'_> {
        ShardsRefMut::new(self.count, self.len64, &mut self.data)
    }
    /// symbol at (shard, block, slot)
    pub fn sym(&self, shard: usize, block: usize, slot: usize) -> u16 {
        let b = &self.data[shard * self.len64 + block];
        b[slot] as u16 | (b[32 + slot] as u16) << 8
    }
    pub fn set_sym(&mut self, shard: usize, block: usize, slot: usize, v: u16) {
        let b = &mut self.data[shard * self.len64 + block];
        b[slot] = v as u8;
        b[32 + slot] = (v >> 8) as u8;
    }
}

#[derive(Clone, Copy, Debug, PartialEq, Eq)]
pub enum Dir {
    Fft,
    Ifft,
}

pub fn transform<E: Eng>(dir: Dir, buf: &mut Buf, pos: usize, size: usize, trunc: usize, delta: usize) {
    let e = E::make();
    let mut r = buf.refmut();
    match dir {
        Dir::Fft => e.fft(&mut r, pos, size, trunc, delta),
        Dir::Ifft => e.ifft(&mut r, pos, size, trunc, delta),
    }
}

pub fn mul_blocks<E: Eng>(x: &mut [[u8; 64]], log_m: u16) {
    E::make().mul(x, log_m);
}

pub fn eval_poly_of<E: Eng>(marked: &[usize], trunc: usize) -> Box<[u16; 65536]> {
    let mut e: Box<[u16; 65536]> = vec![0u16; 65536].into_boxed_slice().try_into().unwrap();
    for &m in marked {
        e[m] = 1;
    }
    E::eval_poly(&mut e, trunc);
    e
}
