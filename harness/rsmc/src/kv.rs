//! Replayable case descriptors: "key=value key=value ..." (values without spaces).
use std::collections::BTreeMap;
use std::fmt::Write;

#[derive(Clone, Debug, Default)]
pub struct Kv(pub BTreeMap<String, String>);

impl Kv {
    pub fn new() -> Self {
        Kv(BTreeMap::new())
    }
    pub fn parse(s: &str) -> Result<Kv, String> {
        let mut m = BTreeMap::new();
        for tok in s.split_whitespace() {
            let Some((k, v)) = tok.split_once('=') else { return Err(format!("bad token {tok}")) };
            m.insert(k.to_string(), v.to_string());
        }
        Ok(Kv(m))
    }
    pub fn with(mut self, k: &str, v: impl std::fmt::Display) -> Self {
        self.0.insert(k.to_string(), v.to_string());
        self
    }
    pub fn str(&self, k: &str) -> &str {
        self.0.get(k).map(|s| s.as_str()).unwrap_or_else(|| panic!("case lacks {k}"))
    }
    pub fn opt(&self, k: &str) -> Option<&str> {
        self.0.get(k).map(|s| s.as_str())
    }
    pub fn usize(&self, k: &str) -> usize {
        parse_usize(self.str(k))
    }
    pub fn u64(&self, k: &str) -> u64 {
        self.str(k).parse().unwrap_or_else(|_| panic!("case {k} not u64"))
    }
    pub fn list(&self, k: &str) -> Vec<usize> {
        let s = self.str(k);
        if s == "-" || s.is_empty() {
            return vec![];
        }
        s.split(',').map(parse_usize).collect()
    }
    pub fn dump(&self) -> String {
        let mut s = String::new();
        for (i, (k, v)) in self.0.iter().enumerate() {
            if i > 0 {
                s.push(' ');
            }
            let _ = write!(s, "{k}={v}");
        }
        s
    }
}

pub fn parse_usize(s: &str) -> usize {
    match s {
        "MAX" => usize::MAX,
        _ => {
            if let Some(rest) = s.strip_prefix("MAX-") {
                usize::MAX - rest.parse::<usize>().expect("MAX-n")
            } else {
                s.parse().unwrap_or_else(|_| panic!("not usize: {s}"))
            }
        }
    }
}

pub fn fmt_usize(x: usize) -> String {
    if x == usize::MAX {
        "MAX".into()
    } else if x > usize::MAX - 1000 {
        format!("MAX-{}", usize::MAX - x)
    } else {
        x.to_string()
    }
}

pub fn fmt_list(v: &[usize]) -> String {
    if v.is_empty() {
        "-".into()
    } else {
        v.iter().map(|x| fmt_usize(*x)).collect::<Vec<_>>().join(",")
    }
}

/// "0-3,7,9-12" <-> sorted index list
pub fn fmt_ranges(v: &[usize]) -> String {
    if v.is_empty() {
        return "-".into();
    }
    let mut out = Vec::new();
    let mut i = 0;
    while i < v.len() {
        let mut j = i;
        while j + 1 < v.len() && v[j + 1] == v[j] + 1 {
            j += 1;
        }
        if j > i {
            out.push(format!("{}-{}", v[i], v[j]));
        } else {
            out.push(format!("{}", v[i]));
        }
        i = j + 1;
    }
    out.join(",")
}

pub fn parse_ranges(s: &str) -> Vec<usize> {
    if s == "-" || s.is_empty() {
        return vec![];
    }
    let mut v = Vec::new();
    for part in s.split(',') {
        if let Some((a, b)) = part.split_once('-') {
            let (a, b): (usize, usize) = (a.parse().expect("range"), b.parse().expect("range"));
            v.extend(a..=b);
        } else {
            v.push(part.parse().expect("index"));
        }
    }
    v
}
