//! rsmc — bounded exhaustive explorers for reed-solomon-simd (properties C01..C15, C17).
//! C16 (thread interleavings) lives in the separate `conc` crate.
//!
//! usage: rsmc <ID> [--tier quick|thorough] [--case "<descriptor>"] [--build NAME]
//! exit: 0 held / only known findings; 1 unlisted violation (VIOLATION line); 2 machinery failure.
#![allow(clippy::too_many_arguments, clippy::type_complexity, clippy::needless_range_loop)]

pub mod api;
pub mod core;
pub mod json;
pub mod kv;
pub mod neon_emu;
pub mod prim;
pub mod report;
pub mod rt;

#[cfg(not(no_neon_port))]
#[allow(dead_code, unused_imports, clippy::all)]
pub mod neon_port {
    include!(concat!(env!("OUT_DIR"), "/engine_neon_port.rs"));
}
#[cfg(not(no_aarch64_port))]
#[allow(dead_code, unused_imports, clippy::all)]
pub mod default_aarch64_port {
    include!(concat!(env!("OUT_DIR"), "/engine_default_aarch64_port.rs"));
}

mod c01;
mod c02;
mod c03;
mod c04;
mod c05;
mod c06;
mod c07;
mod c08;
mod c09;
mod c10;
mod c11;
mod c12;
mod c13;
mod c14;
mod c15;
mod c17;

use json::J;
use report::{Ctx, Known, Report};

// counting allocator (C17); inert unless a thread switches its recorder on
#[global_allocator]
static ALLOC: c17::CountingAlloc = c17::CountingAlloc;

fn main() {
    let args: Vec<String> = std::env::args().collect();
    if args.len() < 2 {
        eprintln!("usage: rsmc <ID> [--tier quick|thorough] [--case STR] [--build NAME]");
        std::process::exit(2);
    }
    let property = args[1].to_uppercase();
    // hidden sub-process mode of C14 (one feature mask per process)
    if property == "C14-CHILD" {
        core::install_quiet_panic_hook();
        c14::child(&args[2..]);
        return;
    }
    let mut tier = std::env::var("VERIF_TIER").unwrap_or_else(|_| "quick".into());
    let mut case: Option<String> = None;
    let mut build = if cfg!(debug_assertions) { "checked".to_string() } else { "release".to_string() };
    let mut i = 2;
    while i < args.len() {
        match args[i].as_str() {
            "--tier" => {
                tier = args[i + 1].clone();
                i += 1;
            }
            "--case" => {
                case = Some(args[i + 1].clone());
                i += 1;
            }
            "--build" => {
                build = args[i + 1].clone();
                i += 1;
            }
            other => {
                eprintln!("unknown argument {other}");
                std::process::exit(2);
            }
        }
        i += 1;
    }
    if tier != "quick" && tier != "thorough" {
        eprintln!("bad tier {tier}");
        std::process::exit(2);
    }
    let seed: u64 = std::env::var("VERIF_SEED").ok().and_then(|s| s.parse::<i128>().ok()).map(|v| v as u64).unwrap_or(1);
    let verif_dir = std::env::var("VERIF_DIR").unwrap_or_else(|_| "/verif".into());
    let ctx = Ctx { property: property.clone(), tier, seed, build, verif_dir };

    core::install_quiet_panic_hook();

    // The explorers run many cases in parallel on OS threads. First use of the crate's lazily built
    // tables is forced here, sequentially, so that the harness itself never races on it: that race
    // is the subject of C16 (controlled scheduler), not something to stumble over here.
    {
        use reed_solomon_simd::engine::tables;
        let _ = &*tables::EXP_LOG;
        let _ = &*tables::SKEW;
        let _ = &*tables::MUL16;
        let _ = &*tables::MUL128;
        let _ = &*tables::LOG_WALSH;
    }

    if let Some(case) = case {
        // replay: run the single case twice; both runs must agree (determinism), then verdict
        let r1 = replay(&ctx, &case);
        let r2 = replay(&ctx, &case);
        if r1 != r2 {
            println!("MACHINERY-ERROR: replay not deterministic: {r1:?} vs {r2:?}");
            std::process::exit(2);
        }
        match r1 {
            Ok(()) => {
                println!("REPLAY property={property} result=held case={case}");
                std::process::exit(0);
            }
            Err(e) => {
                println!("REPLAY property={property} result=violation case={case}\n  {e}");
                std::process::exit(1);
            }
        }
    }

    let mut rep = Report::new();
    let res = core::guard(|| match property.as_str() {
        "C01" => c01::run(&ctx, &mut rep),
        "C02" => c02::run(&ctx, &mut rep),
        "C03" => c03::run(&ctx, &mut rep),
        "C04" => c04::run(&ctx, &mut rep),
        "C05" => c05::run(&ctx, &mut rep),
        "C06" => c06::run(&ctx, &mut rep),
        "C07" => c07::run(&ctx, &mut rep),
        "C08" => c08::run(&ctx, &mut rep),
        "C09" => c09::run(&ctx, &mut rep),
        "C10" => c10::run(&ctx, &mut rep),
        "C11" => c11::run(&ctx, &mut rep),
        "C12" => c12::run(&ctx, &mut rep),
        "C13" => c13::run(&ctx, &mut rep),
        "C14" => c14::run(&ctx, &mut rep),
        "C15" => c15::run(&ctx, &mut rep),
        "C17" => c17::run(&ctx, &mut rep),
        other => {
            eprintln!("unknown property {other}");
            std::process::exit(2);
        }
    });
    if let Err(msg) = res {
        println!("MACHINERY-ERROR: explorer panicked: {msg}");
        std::process::exit(2);
    }
    finish(&ctx, rep);
}

fn replay(ctx: &Ctx, case: &str) -> Result<(), String> {
    let r = core::guard(|| match ctx.property.as_str() {
        "C01" => c01::replay(ctx, case),
        "C02" => c02::replay(ctx, case),
        "C03" => c03::replay(ctx, case),
        "C04" => c04::replay(ctx, case),
        "C05" => c05::replay(ctx, case),
        "C06" => c06::replay(ctx, case),
        "C07" => c07::replay(ctx, case),
        "C08" => c08::replay(ctx, case),
        "C09" => c09::replay(ctx, case),
        "C10" => c10::replay(ctx, case),
        "C11" => c11::replay(ctx, case),
        "C12" => c12::replay(ctx, case),
        "C13" => c13::replay(ctx, case),
        "C14" => c14::replay(ctx, case),
        "C15" => c15::replay(ctx, case),
        "C17" => c17::replay(ctx, case),
        other => Err(format!("unknown property {other}")),
    });
    match r {
        Ok(x) => x,
        Err(p) => Err(format!("replay panicked: {p}")),
    }
}

fn finish(ctx: &Ctx, mut rep: Report) -> ! {
    if !rep.machinery_errors.is_empty() {
        for m in &rep.machinery_errors {
            println!("MACHINERY-ERROR: {m}");
        }
        std::process::exit(2);
    }
    let known = Known::load(&format!("{}/known_findings.json", ctx.verif_dir));
    let mut unlisted = Vec::new();
    let viols = std::mem::take(&mut rep.violations);
    for v in &viols {
        if let Some(what) = known.matches(&ctx.property, &v.key) {
            println!("KNOWN-FINDING: property={} {} [{}]", ctx.property, what, v.key);
        } else {
            unlisted.push(v.clone());
        }
    }
    let replay_dir = format!("{}/replays", ctx.verif_dir);
    let _ = std::fs::create_dir_all(&replay_dir);
    for v in &unlisted {
        let path = format!("{}/{}-{}-{:016x}.json", replay_dir, ctx.property, report::sanitize(&v.key), core::fnv(v.case.as_bytes()));
        let mut j = J::obj();
        j.set("property", J::s(ctx.property.clone()));
        j.set("key", J::s(v.key.clone()));
        j.set("case", J::s(v.case.clone()));
        j.set("expected", J::s(v.expected.clone()));
        j.set("observed", J::s(v.observed.clone()));
        j.set("build", J::s(ctx.build.clone()));
        j.set("tier", J::s(ctx.tier.clone()));
        j.set("seed", J::i(ctx.seed));
        std::fs::write(&path, j.dump()).expect("write replay");
        println!("VIOLATION property={} replay={}", ctx.property, path);
        println!("  key={}\n  expected: {}\n  observed: {}", v.key, v.expected, v.observed);
    }
    let ev = rep.to_json(ctx, unlisted.len());
    // evidence path: the driver merges per-build files; direct runs write the final file
    let ev_path = std::env::var("VERIF_EVIDENCE_OUT").unwrap_or_else(|_| format!("{}/evidence/{}.json", ctx.verif_dir, ctx.property));
    if let Some(dir) = std::path::Path::new(&ev_path).parent() {
        let _ = std::fs::create_dir_all(dir);
    }
    std::fs::write(&ev_path, ev.dump()).expect("write evidence");
    for n in core::port_notes() {
        println!("NOTE: {n}");
    }
    println!(
        "{} tier={} build={} states={} transitions={} traces={} evaluations={} distinct={} exhaustive={} violations={} wall={:.1}s",
        ctx.property,
        ctx.tier,
        ctx.build,
        rep.states,
        rep.transitions,
        rep.traces,
        rep.evaluations,
        rep.distinct,
        rep.exhaustive && rep.caps.is_empty() && core::port_notes().is_empty(),
        unlisted.len(),
        rep.start.elapsed().as_secs_f64()
    );
    std::process::exit(if unlisted.is_empty() { 0 } else { 1 });
}
