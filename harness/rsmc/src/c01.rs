//! C01 — any original_count of the shards restore every missing original.
//! Explicit enumeration of every received-set (subset lattice) of small configurations and of
//! complete pattern families of large ones, each decoded by the real decoder and compared with
//! the original data.
use crate::core::*;
use crate::json::J;
use crate::kv::*;
use crate::report::*;
use crate::rt::*;

fn codecs_for(eng: &str) -> Vec<&'static str> {
    if eng == "default" {
        vec!["high", "low", "def", "rs", "oneshot"]
    } else {
        vec!["high", "low", "def"]
    }
}

fn check_one(g: &Group, og: &[usize], rg: &[usize]) -> Result<(), (String, String)> {
    match g.decode(og, rg, None) {
        Err(e) => Err(("decode Ok with exactly the missing originals".into(), e)),
        Ok(m) => g.check_restored(og, &m).map_err(|e| ("restored == originals not given".into(), e)),
    }
}

fn case_kv(g: &Group, og: &[usize], rg: &[usize]) -> Kv {
    g.kv().with("og", fmt_ranges(og)).with("rg", fmt_ranges(rg))
}

pub fn replay(_ctx: &Ctx, case: &str) -> Result<(), String> {
    let kv = Kv::parse(case)?;
    let g = Group::from_kv(&kv).map_err(|e| format!("encode failed: {e}"))?;
    let og = parse_ranges(kv.str("og"));
    let rg = parse_ranges(kv.str("rg"));
    check_one(&g, &og, &rg).map_err(|(exp, obs)| format!("expected {exp}; observed {obs}"))
}

struct GroupSpec {
    eng: &'static str,
    codec: &'static str,
    k: usize,
    r: usize,
    data: String,
    soil: u64,
}

/// pattern families for large configurations: complete, deterministic lists
pub fn families(k: usize, r: usize) -> Vec<(String, Vec<usize>, Vec<usize>)> {
    let mut out: Vec<(String, Vec<usize>, Vec<usize>)> = Vec::new();
    let m = k.min(r);
    // g. whole-field configurations: lose exactly the positions of a hyperplane half (bit b of the work
    //    position equal to v), when what remains is still enough
    {
        let high_end = pow2ceil(r) + k;
        let low_end = pow2ceil(k) + r;
        if high_end == 65536 || low_end == 65536 {
            // positions are rate dependent; describe the loss through shard indexes for BOTH layouts and keep
            // those that leave >= k shards: loss of original i / recovery j decided by the bit of its index
            for b in [0usize, 1, 5, 13, 14] {
                for v in 0..2usize {
                    let og: Vec<usize> = (0..k).filter(|i| (i >> b) & 1 != v).collect();
                    let rg: Vec<usize> = (0..r).filter(|j| (j >> b) & 1 != v).collect();
                    if og.len() + rg.len() >= k && og.len() < k {
                        out.push((format!("hyperplane-bit{b}={v}"), og, rg));
                    }
                }
            }
        }
    }

    // h. configurations whose work area reaches beyond position 32768 (locator values are computed modulo 65535
    //    and both 0 and 65535 occur there): scattered losses, many different erasure sets, each exactly
    //    sufficient and with one surplus recovery shard
    {
        let high_end = pow2ceil(r) + k;
        let low_end = pow2ceil(k) + r;
        if high_end.max(low_end) > 32768 && m >= 3 {
            for t in 0..12u64 {
                let mult = 2654435761u64.wrapping_add(t * 40503 * 2) | 1;
                let nloss = [3usize, 7, m.min(50), m.min(400)][(t % 4) as usize];
                let mut lost: Vec<usize> = (0..nloss as u64).map(|x| ((x + 1 + t).wrapping_mul(mult) >> 7) as usize % k).collect();
                lost.sort();
                lost.dedup();
                let og: Vec<usize> = { let mut it = lost.iter().peekable(); (0..k).filter(|i| if it.peek() == Some(&i) { it.next(); false } else { true }).collect() };
                let mut rg: Vec<usize> = (0..lost.len() as u64 + 1).map(|x| ((x + 3 + t).wrapping_mul(mult ^ 0x5bd1e995) >> 9) as usize % r).collect();
                rg.sort();
                rg.dedup();
                let mut j = 0;
                while rg.len() < lost.len() + 1 && j < r {
                    if !rg.contains(&j) { rg.push(j); }
                    j += 1;
                }
                rg.sort();
                if rg.len() == lost.len() + 1 {
                    out.push((format!("scatter{t}-surplus"), og.clone(), rg.clone()));
                    rg.pop();
                    out.push((format!("scatter{t}-exact"), og, rg));
                }
            }
        }
    }

    // a. maximum loss, first recovery shards, keep the last originals
    out.push(("maxloss-first".into(), (m..k).collect(), (0..m).collect()));
    // b. maximum loss, last recovery shards, keep the first originals
    out.push(("maxloss-last".into(), (0..k - m).collect(), (r - m..r).collect()));
    // c. every other original missing, odd recovery shards first
    {
        let og: Vec<usize> = (0..k).filter(|i| i % 2 == 0).collect();
        let need = k - og.len();
        let mut rg: Vec<usize> = (0..r).filter(|j| j % 2 == 1).take(need).collect();
        if rg.len() < need {
            let more: Vec<usize> = (0..r).filter(|j| j % 2 == 0).take(need - rg.len()).collect();
            rg.extend(more);
            rg.sort();
        }
        if rg.len() == need {
            out.push(("every-other".into(), og, rg));
        }
    }
    // d. exactly-k windows sliding over the shard list in steps of one chunk
    let chunk = pow2ceil(m).max(1);
    let n = k + r;
    let mut starts: Vec<usize> = (0..=n - k).step_by(chunk.max((n - k) / 24).max(1)).collect();
    if *starts.last().unwrap() != n - k {
        starts.push(n - k);
    }
    for s in starts {
        // shards s..s+k of the list [o0..o(k-1), r0..r(r-1)]
        let (og, rg): (Vec<usize>, Vec<usize>) = if s <= k { ((s..k).collect(), (0..s).collect()) } else { (vec![], (s - k..s).collect()) };
        if rg.iter().all(|j| *j < r) && og.len() + rg.len() == k {
            out.push((format!("window@{s}"), og, rg));
        }
    }
    // e. one missing original at every chunk edge +-1, repaired by one recovery shard
    let mut edges: Vec<usize> = vec![0, k - 1];
    let mut c = chunk;
    let mut cnt = 0;
    while c < k && cnt < 40 {
        for d in [c - 1, c, c + 1] {
            if d < k {
                edges.push(d);
            }
        }
        c += chunk.max(k / 16 / chunk * chunk).max(chunk);
        cnt += 1;
    }
    edges.sort();
    edges.dedup();
    let rsel = [0usize, r - 1, (chunk.min(r) - 1), r / 2];
    for (n_e, &e) in edges.iter().enumerate() {
        let j = rsel[n_e % rsel.len()].min(r - 1);
        out.push((format!("single-missing@{e}+r{j}"), (0..k).filter(|i| *i != e).collect(), vec![j]));
    }
    // f. everything given except one original (surplus)
    for &e in &[0usize, k / 2, k - 1] {
        out.push((format!("surplus-all-but@{e}"), (0..k).filter(|i| *i != e).collect(), (0..r).collect()));
    }
    out
}


/// complete loss-pattern families for MID-SIZE configurations, defined relative to every internal boundary
/// at once: (i) every interval [a,b) of missing originals (b-a <= r), repaired by the first / the last /
/// a wrapped interval of recovery shards; (ii) every pair of missing originals; (iii) every "sub-cube" loss
/// {i : i & m == v} over all masks m and values v of the index bits (all power-of-two aligned and strided
/// patterns: chunk edges, 32- and 64-position words, halves of a transform), repaired by the recovery shards
/// with the same index predicate first. `variants`: 3 = all recovery choices for every interval, 1 = in rotation.
pub fn midsize_families(k: usize, r: usize, variants: usize) -> Vec<(String, Vec<usize>, Vec<usize>)> {
    let mut out: Vec<(String, Vec<usize>, Vec<usize>)> = Vec::new();
    let take_wrapped = |start: usize, len: usize| -> Vec<usize> {
        let mut v: Vec<usize> = (0..len).map(|t| (start + t) % r).collect();
        v.sort();
        v
    };
    for a in 0..k {
        for b in a + 1..=k.min(a + r) {
            let len = b - a;
            let og: Vec<usize> = (0..a).chain(b..k).collect();
            for v in 0..3usize {
                if variants < 3 && (a + b) % 3 != v {
                    continue;
                }
                let rg: Vec<usize> = match v {
                    0 => (0..len).collect(),
                    1 => (r - len..r).collect(),
                    _ => take_wrapped(a % r, len),
                };
                out.push((format!("interval[{a},{b})v{v}"), og.clone(), rg));
            }
        }
    }
    if r >= 2 {
        for i in 0..k {
            for j in i + 1..k {
                let og: Vec<usize> = (0..k).filter(|x| *x != i && *x != j).collect();
                let (mut p, mut q) = (i % r, j % r);
                if p == q {
                    q = (q + 1) % r;
                }
                if p > q {
                    std::mem::swap(&mut p, &mut q);
                }
                out.push((format!("pair({i},{j})"), og, vec![p, q]));
            }
        }
    }
    // every pair of recovery shards repairing the first and the last original
    if r >= 2 && k >= 2 {
        let og: Vec<usize> = (1..k - 1).collect();
        for p in 0..r {
            for q in p + 1..r {
                out.push((format!("rpair({p},{q})"), og.clone(), vec![p, q]));
            }
        }
    }
    let bits = usize::BITS as usize - (k.max(r) - 1).leading_zeros() as usize;
    for m in 1usize..(1 << bits) {
        // v ranges over the sub-masks of m
        let mut v = m;
        loop {
            let missing: Vec<usize> = (0..k).filter(|i| i & m == v).collect();
            if !missing.is_empty() && missing.len() <= r && missing.len() < k.max(2) {
                let og: Vec<usize> = (0..k).filter(|i| i & m != v).collect();
                let mut rg: Vec<usize> = (0..r).filter(|j| j & m == v).take(missing.len()).collect();
                if rg.len() < missing.len() {
                    let more: Vec<usize> = (0..r).filter(|j| j & m != v).take(missing.len() - rg.len()).collect();
                    rg.extend(more);
                    rg.sort();
                }
                out.push((format!("cube(m={m:#x},v={v:#x})"), og, rg));
            }
            if v == 0 {
                break;
            }
            v = (v - 1) & m;
        }
    }
    out
}

/// Directed choice of erasure sets: candidates (scattered losses, exactly sufficient) are run through the real
/// `eval_poly` on the erasure vector the decoder of that rate builds (documented layout), and the sets are kept
/// for which the locator takes one of its two special raw values - 0 or 65535, the same residue modulo 65535 -
/// at a *received* position. Consumers of the locator must treat both alike. Returns (sets, zeros, ffffs).
pub fn special_locator_sets(high: bool, k: usize, r: usize, want: usize) -> (Vec<(String, Vec<usize>, Vec<usize>)>, usize, usize) {
    use reed_solomon_simd::engine::{Engine, NoSimd, GF_ORDER};
    let mut out = Vec::new();
    let (mut n0, mut n1) = (0usize, 0usize);
    let m = k.min(r);
    if m < 3 {
        return (out, 0, 0);
    }
    for t in 0..160u64 {
        if n0 >= want && n1 >= want {
            break;
        }
        let mult = 0x9E37_79B9_7F4A_7C15u64.wrapping_mul(2 * t + 1) | 1;
        let nloss = [3usize, 5, m.min(17), m.min(64), m.min(300)][(t % 5) as usize];
        let mut lost_flag = vec![false; k];
        let mut nl = 0;
        let mut x = t + 1;
        while nl < nloss {
            x = x.wrapping_mul(mult).wrapping_add(0x1234_5677);
            let i = (x >> 17) as usize % k;
            if !lost_flag[i] {
                lost_flag[i] = true;
                nl += 1;
            }
        }
        let mut given_r = vec![false; r];
        let mut ng = 0;
        while ng < nloss {
            x = x.wrapping_mul(mult).wrapping_add(0x0765_4321);
            let j = (x >> 19) as usize % r;
            if !given_r[j] {
                given_r[j] = true;
                ng += 1;
            }
        }
        let mut er: Box<[u16; GF_ORDER]> = vec![0u16; GF_ORDER].into_boxed_slice().try_into().unwrap();
        let mut received: Vec<usize> = Vec::new();
        if high {
            let chunk = pow2ceil(r);
            for j in 0..r {
                if given_r[j] { received.push(j) } else { er[j] = 1 }
            }
            for p in r..chunk {
                er[p] = 1;
            }
            for i in 0..k {
                if lost_flag[i] { er[chunk + i] = 1 } else { received.push(chunk + i) }
            }
            NoSimd::eval_poly(&mut er, chunk + k);
        } else {
            let chunk = pow2ceil(k);
            for i in 0..k {
                if lost_flag[i] { er[i] = 1 } else { received.push(i) }
            }
            for j in 0..r {
                if given_r[j] { received.push(chunk + j) } else { er[chunk + j] = 1 }
            }
            for p in chunk + r..GF_ORDER {
                er[p] = 1;
            }
            NoSimd::eval_poly(&mut er, GF_ORDER);
        }
        let has0 = received.iter().any(|p| er[*p] == 0);
        let hasm = received.iter().any(|p| er[*p] == 65535);
        let keep0 = has0 && n0 < want;
        let keepm = hasm && n1 < want;
        if keep0 || keepm {
            if keep0 { n0 += 1 }
            if keepm { n1 += 1 }
            let og: Vec<usize> = (0..k).filter(|i| !lost_flag[*i]).collect();
            let rg: Vec<usize> = (0..r).filter(|j| given_r[*j]).collect();
            out.push((format!("locator{}{}-cand{t}", if has0 { "-zero" } else { "" }, if hasm { "-ffff" } else { "" }), og, rg));
        }
    }
    (out, n0, n1)
}

pub fn run(ctx: &Ctx, rep: &mut Report) {
    let seed = ctx.seed;
    let soil = seed | 1;
    rep.rule = "case = (engine, codec, (k,r), data, soiled?, received-set); enumerated: every subset with >= k members of the k+r shards for the small configurations, complete pattern families for the large ones; non-trivial = at least one original missing and at least one recovery shard used (real algebraic decode); distinct by (engine,codec,k,r,data,soil,set)".into();
    rep.assume("data quantifier covered by a GF(2)-basis of the data space (basis-in-slots) plus dense samples; lifts to all data by linearity (C13) and slot independence (C04)");
    rep.assume("soiled working space = contents reachable through the public API (a bigger, fully loaded earlier round)");

    // ---------------- groups with exhaustive subsets
    let mut specs: Vec<GroupSpec> = Vec::new();
    let (kmax, engines): (usize, Vec<&'static str>) = if ctx.thorough() { (6, engines_all()) } else { (5, engines_all()) };
    for k in 1..=kmax {
        for r in 1..=kmax {
            for &eng in &engines {
                for codec in codecs_for(eng) {
                    // quick: the slow reference engine and the emulated one only up to n = 6
                    if !ctx.thorough() && (eng == "naive" || eng == "neonemu" || eng == "ssse3") && k + r > 7 {
                        continue;
                    }
                    specs.push(GroupSpec { eng, codec, k, r, data: "basis".into(), soil, });
                    if k + r <= 6 || ctx.thorough() {
                        specs.push(GroupSpec { eng, codec, k, r, data: "dense:66".into(), soil: 0 });
                    }
                    if k + r <= 7 || ctx.thorough() && k + r <= 9 && eng != "naive" && eng != "neonemu" {
                        // particular symbol values (zero shard, equal shards, 0xFFFF, equal halves, 0/1/0xFFFF cycles)
                        specs.push(GroupSpec { eng, codec, k, r, data: "special:130".into(), soil });
                    }
                    if ctx.thorough() {
                        specs.push(GroupSpec { eng, codec, k, r, data: "dense:2".into(), soil });
                        specs.push(GroupSpec { eng, codec, k, r, data: "dense:128".into(), soil });
                    }
                }
            }
        }
    }
    if ctx.thorough() {
        for k in 1..=7usize {
            for r in 1..=7usize {
                if k <= kmax && r <= kmax {
                    continue;
                }
                for &eng in &engines_fast() {
                    for codec in ["high", "low", "def"] {
                        specs.push(GroupSpec { eng, codec, k, r, data: "basis".into(), soil });
                        specs.push(GroupSpec { eng, codec, k, r, data: "dense:66".into(), soil: 0 });
                    }
                }
            }
        }
        rep.bound("exhaustive_subsets_cfg_7", J::s("k or r = 7 (n <= 14): every subset, {high,low,def} x {nosimd,avx2}, basis-in-slots soiled + dense 66 bytes fresh"));
    }
    rep.bound("exhaustive_subsets_cfg", J::s(format!("[1..{kmax}]^2 x codecs {{high,low,def}} (+rs,oneshot on default engine) x engines {engines:?}")));
    if ctx.thorough() {
        for &(k, r) in &[(8usize, 9usize), (9, 8), (12, 4), (4, 12), (11, 5), (13, 3), (3, 13)] {
            for &eng in &engines_fast() {
                for codec in ["high", "low", "def"] {
                    specs.push(GroupSpec { eng, codec, k, r, data: "dense:64".into(), soil });
                }
            }
        }
        specs.push(GroupSpec { eng: "nosimd", codec: "def", k: 16, r: 4, data: "dense:2".into(), soil });
        rep.bound("exhaustive_subsets_chunk_edge_cfg", J::s("(8,9) (9,8) (12,4) (4,12) (11,5) (13,3) (3,13) x {high,low,def} x {nosimd,avx2}; (16,4) def nosimd"));
    }

    // long shards (above 4 KiB / 8 KiB / 16 KiB, block counts that are no multiple of 64, short final block)
    let long_data: Vec<&str> = if ctx.thorough() { vec!["dense:4162", "dense:8318", "dense:16450", "dense:65730"] } else { vec!["dense:4162", "dense:8318", "dense:16450"] };
    for &(k, r) in &[(2usize, 3usize), (3, 2), (3, 3), (5, 2)] {
        for &eng in &engines_all() {
            for codec in ["high", "low"] {
                for d in &long_data {
                    specs.push(GroupSpec { eng, codec, k, r, data: d.to_string(), soil });
                }
            }
        }
    }
    rep.bound("exhaustive_subsets_long_shards", J::s(format!("(2,3) (3,2) (3,3) (5,2) x {{high,low}} x every engine x {long_data:?}, soiled: every subset")));

    // build groups (parallel)
    let built: Vec<Result<Group, String>> = par_for(specs.len(), 4, |i| {
        let s = &specs[i];
        build_group(s.eng, s.codec, s.k, s.r, &s.data, s.soil, seed)
    });
    let mut groups: Vec<Group> = Vec::new();
    for (i, b) in built.into_iter().enumerate() {
        match b {
            Ok(g) => groups.push(g),
            Err(e) => {
                let s = &specs[i];
                // encoding a supported configuration failed: that already violates C01 ("decode succeeds" presupposes encode)
                let kv = Kv::new().with("eng", s.eng).with("codec", s.codec).with("k", s.k).with("r", s.r).with("data", &s.data).with("soil", s.soil).with("seed", seed).with("og", "-").with("rg", "-");
                rep.violation(Violation { key: format!("encode-{}-{}-{}-{}", s.codec, s.eng, s.k, s.r), case: kv.dump(), expected: "encode Ok".into(), observed: e });
            }
        }
    }
    // flat case space
    let masks: Vec<Vec<u32>> = groups.iter().map(|g| subsets_at_least_k(g.k, g.r)).collect();
    let mut offs = vec![0usize];
    for m in &masks {
        offs.push(offs.last().unwrap() + m.len());
    }
    let total = *offs.last().unwrap();
    let results: Vec<(bool, u64, Option<Violation>)> = par_for(total, 32, |idx| {
        let gi = offs.partition_point(|o| *o <= idx) - 1;
        let g = &groups[gi];
        let mask = masks[gi][idx - offs[gi]];
        let (og, rg) = split_mask(g.k, g.r, mask);
        let nontrivial = og.len() < g.k && !rg.is_empty();
        let adds = (og.len() + rg.len()) as u64;
        match check_one(g, &og, &rg) {
            Ok(()) => (nontrivial, adds, None),
            Err((exp, obs)) => (
                nontrivial,
                adds,
                Some(Violation {
                    key: format!("{}-{}-k{}r{}-{}-soil{}-o{}-r{}", g.codec, g.eng, g.k, g.r, g.data.replace(':', ""), (g.soil != 0) as u8, fmt_ranges(&og), fmt_ranges(&rg)),
                    case: case_kv(g, &og, &rg).dump(),
                    expected: exp,
                    observed: obs,
                }),
            ),
        }
    });
    for (nt, adds, v) in results {
        rep.states += 1;
        rep.traces += 1;
        rep.evaluations += 1;
        rep.transitions += adds + 1;
        if nt {
            rep.distinct += 1;
        }
        if let Some(v) = v {
            rep.violation(v);
        }
    }
    if let Some(g) = groups.first() {
        let (og, rg) = split_mask(g.k, g.r, masks[0][0]);
        rep.sample(case_kv(g, &og, &rg).dump());
    }
    if let Some(g) = groups.last() {
        let m = masks.last().unwrap();
        let (og, rg) = split_mask(g.k, g.r, m[m.len() / 2]);
        rep.sample(case_kv(g, &og, &rg).dump());
    }
    rep.extra("groups_exhaustive", J::i(groups.len()));
    rep.extra("subset_cases", J::i(total));


    // ---------------- mid-size configurations: complete boundary-relative loss families
    let mid: Vec<(usize, usize)> = if ctx.thorough() {
        vec![(40, 24), (24, 40), (70, 70), (100, 36), (36, 100), (33, 31), (65, 65), (96, 64)]
    } else {
        vec![(40, 24), (24, 40), (70, 70), (100, 36), (36, 100), (33, 31)]
    };
    let mut mid_specs: Vec<GroupSpec> = Vec::new();
    for (ci, &(k, r)) in mid.iter().enumerate() {
        for (ki, codec) in ["high", "low", "def", "rs", "oneshot"].into_iter().enumerate() {
            if !spec_supports(codec_kind(codec), k, r) {
                continue;
            }
            if ki >= 3 && !ctx.thorough() && ci % 2 == 1 {
                continue; // quick: ReedSolomon* and the one-shot functions on every other configuration
            }
            let fast = engines_fast();
            let engs: Vec<&'static str> = if ki >= 3 { vec!["default"] } else if ctx.thorough() { fast.clone() } else { vec![fast[(ci + ki) % fast.len()]] };
            for eng in engs {
                let data = ["dense:64", "dense:66", "special:64", "dense:130"][(ci + ki) % 4];
                mid_specs.push(GroupSpec { eng, codec, k, r, data: data.into(), soil: if (ci + ki) % 2 == 0 { soil } else { 0 } });
            }
        }
    }
    rep.bound("midsize_cfg", J::s(format!("{mid:?} x {{high,low,def}} (quick: engines nosimd/avx2 in rotation; thorough: both) + ReedSolomon* and one-shot encode/decode on the default engine (quick: every other configuration): every interval of missing originals (length <= r) x {} recovery choices (first / last / wrapped interval), every pair of missing originals, every pair of recovery shards (first and last original missing), every sub-cube loss {{i : i & m == v}} over all masks and values of the index bits", if ctx.thorough() { "3" } else { "1 of 3 (in rotation)" })));
    let mid_groups: Vec<Result<Group, String>> = par_for(mid_specs.len(), 1, |i| {
        let s = &mid_specs[i];
        build_group(s.eng, s.codec, s.k, s.r, &s.data, s.soil, seed)
    });
    let mut mgroups: Vec<Group> = Vec::new();
    for (i, b) in mid_groups.into_iter().enumerate() {
        match b {
            Ok(g) => mgroups.push(g),
            Err(e) => {
                let s = &mid_specs[i];
                let kv = Kv::new().with("eng", s.eng).with("codec", s.codec).with("k", s.k).with("r", s.r).with("data", &s.data).with("soil", s.soil).with("seed", seed).with("og", "-").with("rg", "-");
                rep.violation(Violation { key: format!("encode-{}-{}-{}-{}", s.codec, s.eng, s.k, s.r), case: kv.dump(), expected: "encode Ok".into(), observed: e });
            }
        }
    }
    let variants = if ctx.thorough() { 3 } else { 1 };
    let mfams: Vec<Vec<(String, Vec<usize>, Vec<usize>)>> = mgroups.iter().map(|g| midsize_families(g.k, g.r, variants)).collect();
    let mut moffs = vec![0usize];
    for f in &mfams {
        moffs.push(moffs.last().unwrap() + f.len());
    }
    let mtotal = *moffs.last().unwrap();
    let mres: Vec<(u64, Option<Violation>)> = par_for(mtotal, 64, |idx| {
        let gi = moffs.partition_point(|o| *o <= idx) - 1;
        let g = &mgroups[gi];
        let (name, og, rg) = &mfams[gi][idx - moffs[gi]];
        let adds = (og.len() + rg.len()) as u64 + 1;
        match check_one(g, og, rg) {
            Ok(()) => (adds, None),
            Err((exp, obs)) => (adds, Some(Violation { key: format!("{}-{}-k{}r{}-{}-{}", g.codec, g.eng, g.k, g.r, g.data.replace(':', ""), name), case: case_kv(g, og, rg).dump(), expected: exp, observed: obs })),
        }
    });
    for (adds, v) in mres {
        rep.states += 1;
        rep.traces += 1;
        rep.evaluations += 1;
        rep.transitions += adds;
        rep.distinct += 1;
        if let Some(v) = v {
            rep.violation(v);
        }
    }
    rep.extra("midsize_groups", J::i(mgroups.len()));
    rep.extra("midsize_cases", J::i(mtotal));
    if let (Some(g), Some(f)) = (mgroups.first(), mfams.first()) {
        if let Some((name, og, rg)) = f.get(f.len() / 2) {
            rep.sample(format!("{} family={name}", case_kv(g, og, rg).dump()));
        }
    }

    // ---------------- pattern families on large / envelope configurations
    let big: Vec<(usize, usize)> = if ctx.thorough() {
        vec![(255, 1), (256, 256), (257, 255), (1000, 100), (100, 1000), (4095, 4097), (32768, 32768), (61440, 4096), (4096, 61440), (65534, 2), (2, 65534), (65535, 1), (1, 65535)]
    } else {
        vec![(255, 1), (257, 255), (100, 1000), (4095, 4097), (65535, 1), (10000, 10000), (1000, 20000), (20000, 1000), (32768, 32768), (40000, 1000), (1000, 40000), (30000, 3000)]
    };
    let big: Vec<(usize, usize)> = if ctx.thorough() { big.into_iter().chain([(10000, 10000), (1000, 20000), (20000, 1000), (16385, 3), (3, 16385), (8193, 8193)]).collect() } else { big };
    let mut fam_specs: Vec<GroupSpec> = Vec::new();
    // grid of mid-size configurations around every chunk-size boundary (pattern families, first 12)
    let grid: Vec<usize> = if ctx.thorough() {
        vec![1, 2, 3, 4, 5, 7, 8, 9, 15, 16, 17, 31, 32, 33, 63, 64, 65, 100, 127, 128, 129, 255, 256, 257, 300, 511, 512, 513, 1000, 1023, 1024, 1025, 2047, 2048, 2049, 4095, 4096, 4097, 8191, 8192, 8193]
    } else {
        vec![1, 2, 3, 5, 8, 9, 16, 17, 31, 32, 33, 64, 65, 127, 128, 129, 255, 256, 257, 513, 1024, 1025, 2049, 4096, 4097]
    };
    let mut grid_specs = 0usize;
    for (gi, &k) in grid.iter().enumerate() {
        for (gj, &r) in grid.iter().enumerate() {
            if k <= kmax && r <= kmax {
                continue; // covered exhaustively above
            }
            for (ci, codec) in ["high", "low", "def"].into_iter().enumerate() {
                if !spec_supports(Kind::parse(codec), k, r) {
                    continue;
                }
                // quick: one codec per configuration in rotation, all three in thorough
                if !ctx.thorough() && (gi + gj) % 3 != ci {
                    continue;
                }
                let eng = if (gi + gj + ci) % 4 == 0 || !engines_fast().contains(&"avx2") { "nosimd" } else { "avx2" };
                let data = if k + r > 3000 { "dense:2" } else if (gi + gj) % 2 == 0 { "dense:64" } else { "dense:66" };
                fam_specs.push(GroupSpec { eng, codec, k, r, data: data.into(), soil: if k + r > 3000 { 0 } else { soil } });
                grid_specs += 1;
            }
        }
    }
    rep.bound("grid_cfg", J::s(format!("{grid:?} squared ({grid_specs} (cfg,codec) groups; quick: codecs in rotation), first 12 patterns of the family list each")));
    let grid_end = fam_specs.len();
    for &(k, r) in &big {
        let engs: Vec<&'static str> = if ctx.thorough() { engines_fast() } else { vec!["avx2"].into_iter().filter(|e| engines_fast().contains(e)).chain(if engines_fast().contains(&"avx2") { vec![] } else { vec!["nosimd"] }).collect() };
        for eng in engs {
            for codec in ["high", "low", "def"] {
                let kind = Kind::parse(codec);
                if !spec_supports(kind, k, r) {
                    continue;
                }
                if !ctx.thorough() && codec != "def" && k + r > 5000 {
                    continue;
                }
                let data = if k + r > 5000 { "dense:2" } else { "dense:66" };
                fam_specs.push(GroupSpec { eng, codec, k, r, data: data.into(), soil: if k + r > 20000 { 0 } else { soil } });
            }
        }
    }
    rep.bound("family_cfg", J::s(format!("{big:?}")));
    let thorough = ctx.thorough();
    let fam_results: Vec<(u64, u64, u64, Vec<Violation>, Option<String>, (usize, usize))> = par_for(fam_specs.len(), 1, |i| {
        let s = &fam_specs[i];
        let mut viols = Vec::new();
        let g = match build_group(s.eng, s.codec, s.k, s.r, &s.data, s.soil, seed) {
            Ok(g) => g,
            Err(e) => {
                let kv = Kv::new().with("eng", s.eng).with("codec", s.codec).with("k", s.k).with("r", s.r).with("data", &s.data).with("soil", s.soil).with("seed", seed).with("og", "-").with("rg", "-");
                viols.push(Violation { key: format!("encode-{}-{}-{}-{}", s.codec, s.eng, s.k, s.r), case: kv.dump(), expected: "encode Ok".into(), observed: e });
                return (0, 0, 0, viols, None, (0, 0));
            }
        };
        let mut fams = families(g.k, g.r);
        let (mut n, mut adds, mut nt) = (0u64, 0u64, 0u64);
        let mut special = (0usize, 0usize);
        if i >= grid_end && s.k.min(s.r) >= 3 {
            // directed: erasure sets whose locator is exactly 0 / exactly 65535 at a received position (front of the list)
            let (sets, z, f) = special_locator_sets(spec_is_high(codec_kind(&g.codec), g.k, g.r), g.k, g.r, if thorough { 4 } else { 2 });
            special = (z, f);
            let mut v = sets;
            v.extend(fams);
            fams = v;
        }
        let mut sample = None;
        let cap = if i < grid_end { 12 } else if thorough || s.k + s.r <= 1200 { usize::MAX } else { 38 };
        for (name, og, rg) in fams.iter().take(cap) {
            n += 1;
            adds += (og.len() + rg.len()) as u64 + 1;
            if og.len() < g.k && !rg.is_empty() {
                nt += 1;
            }
            if sample.is_none() {
                sample = Some(format!("{} family={name}", case_kv(&g, og, rg).dump()));
            }
            if let Err((exp, obs)) = check_one(&g, og, rg) {
                viols.push(Violation {
                    key: format!("{}-{}-k{}r{}-{}", g.codec, g.eng, g.k, g.r, name),
                    case: case_kv(&g, og, rg).dump(),
                    expected: exp,
                    observed: obs,
                });
            }
        }
        (n, adds, nt, viols, sample, special)
    });
    let mut fam_cases = 0u64;
    let (mut loc_zero, mut loc_ffff) = (0usize, 0usize);
    for (n, adds, nt, viols, sample, special) in fam_results {
        loc_zero += special.0;
        loc_ffff += special.1;
        fam_cases += n;
        rep.states += n;
        rep.traces += n;
        rep.evaluations += n;
        rep.transitions += adds;
        rep.distinct += nt;
        rep.violations(viols);
        if let Some(s) = sample {
            if rep.samples.len() < 4 {
                rep.sample(s);
            }
        }
    }
    rep.extra("family_groups", J::i(fam_specs.len()));
    rep.extra("directed_locator_sets_with_raw_0_at_a_received_position", J::i(loc_zero));
    rep.extra("directed_locator_sets_with_raw_65535_at_a_received_position", J::i(loc_ffff));
    rep.bound("directed_locator_values", J::s("large configurations: up to 160 scattered candidate sets are run through the real eval_poly on the erasure vector of the rate's documented layout; the first 2 (4) sets whose locator is exactly 0, and exactly 65535, at a received position are decoded (counts above; 0 occurs only beyond position 32768)"));
    rep.extra("family_cases", J::i(fam_cases));
    rep.bound("family_prefix_quick", J::s("quick: configurations with more than 1200 shards run the first 38 patterns of the (fixed-order) family list (hyperplane halves, then 24 scattered erasure sets - exact and with one surplus shard - where the work area reaches beyond position 32768, then the maximum-loss / window patterns); thorough runs all"));
}

