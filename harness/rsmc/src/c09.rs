//! C09 — the default codec is the rate fixed by the selection rule; API layers agree.
use crate::core::*;
use crate::json::J;
use crate::kv::*;
use crate::report::*;
use crate::rt::*;
use crate::with_engine;

type V = (String, String);

fn dedicated(k: usize, r: usize) -> &'static str {
    if spec_high_selected(k, r) {
        "high"
    } else {
        "low"
    }
}

/// default-rate encoders (def with engine; rs/oneshot with the default engine) == dedicated encoder
/// of the rule; default decoders decode what the dedicated encoder produced. Returns (checks, rates_differ).
fn check_cfg(eng: &str, k: usize, r: usize, data: &str, seed: u64) -> Result<(u64, bool), V> {
    let ded = dedicated(k, r);
    let other = if ded == "high" { "low" } else { "high" };
    let gd = build_group(eng, ded, k, r, data, 0, seed).map_err(|e| (format!("dedicated {ded}-rate encode Ok"), e))?;
    let mut n = 0u64;
    let mut differ = false;
    if spec_supports(Kind::parse(other), k, r) {
        let go = build_group(eng, other, k, r, data, 0, seed).map_err(|e| (format!("dedicated {other}-rate encode Ok"), e))?;
        differ = go.recovery != gd.recovery;
    }
    let mut layers = vec!["def"];
    if eng == "default" {
        layers.push("rs");
        layers.push("oneshot");
    }
    for layer in layers {
        let gl = build_group(eng, layer, k, r, data, seed | 1, seed).map_err(|e| (format!("{layer} encode Ok"), e))?;
        n += 1;
        if gl.recovery != gd.recovery {
            let j = (0..r).find(|&j| gl.recovery[j] != gd.recovery[j]).unwrap();
            return Err((format!("{layer} recovery[{j}] == {ded}-rate codec's {}", hex(&gd.recovery[j])), hex(&gl.recovery[j])));
        }
        // the default decoder must decode the dedicated encoder's shards
        let mixed = Group { eng: eng.to_string(), codec: layer.to_string(), k, r, bytes: gd.bytes, data: data.to_string(), soil: seed | 1, seed, originals: gd.originals.clone(), recovery: gd.recovery.clone() };
        for (name, og, rg) in crate::c01::families(k, r).into_iter().filter(|(n, _, _)| n == "maxloss-first" || n == "every-other" || n.starts_with("single-missing@0")) {
            let m = mixed.decode(&og, &rg, None).map_err(|e| (format!("{layer} decoder decodes {ded}-rate shards ({name})"), e))?;
            mixed.check_restored(&og, &m).map_err(|e| (format!("{layer} decoder restores {ded}-rate shards ({name})"), e))?;
            n += 1;
        }
    }
    Ok((n, differ))
}

/// reset histories: a sequence of configurations on one default-rate object, each followed by a
/// round compared with the dedicated codec
fn check_history(eng: &str, layer: &str, seq: &[(usize, usize)], seed: u64, with_failing: bool) -> Result<u64, V> {
    let kind = Kind::parse(layer);
    let bytes = 64usize;
    let res = guard(|| -> Result<u64, V> {
        with_engine!(eng, E => {
            let (k0, r0) = seq[0];
            let mut enc = AnyEnc::<E>::new(kind, k0, r0, bytes, None).map_err(|e| ("new Ok".to_string(), format!("{e:?}")))?;
            let mut dec = AnyDec::<E>::new(kind, k0, r0, bytes, None).map_err(|e| ("new Ok".to_string(), format!("{e:?}")))?;
            let mut n = 0u64;
            for (step, &(k, r)) in seq.iter().enumerate() {
                if step > 0 && with_failing {
                    // a rejected reset with the same counts (invalid shard size) must not influence the choice
                    if enc.reset(k, r, 63).is_ok() || dec.reset(k, r, 0).is_ok() {
                        return Err((format!("reset({k},{r},<invalid size>) -> Err"), "Ok".to_string()));
                    }
                }
                if step > 0 {
                    enc.reset(k, r, bytes).map_err(|e| (format!("encoder reset({k},{r}) Ok"), format!("{e:?}")))?;
                    dec.reset(k, r, bytes).map_err(|e| (format!("decoder reset({k},{r}) Ok"), format!("{e:?}")))?;
                }
                let originals = data_dense(k, bytes, seed ^ step as u64);
                let ded = dedicated(k, r);
                let want = real_encode(eng, ded, k, r, bytes, &originals, 0).map_err(|e| ("dedicated encode Ok".to_string(), e))?;
                for o in &originals { enc.add(o).map_err(|e| ("add Ok".to_string(), format!("{e:?}")))?; }
                let got: Vec<Vec<u8>> = {
                    let res = enc.encode().map_err(|e| ("encode Ok".to_string(), format!("{e:?}")))?;
                    res.recovery_iter().map(|s| s.to_vec()).collect()
                };
                if got != want {
                    return Err((format!("after resets {:?}: recovery == {ded}-rate codec's", &seq[..=step]), format!("differs (first shard {} vs {})", hex(&got[0]), hex(&want[0]))));
                }
                // decode dedicated shards: max loss
                let m = k.min(r);
                for j in 0..m { dec.add_recovery(j, &want[j]).map_err(|e| ("add_recovery Ok".to_string(), format!("{e:?}")))?; }
                for i in m..k { dec.add_original(i, &originals[i]).map_err(|e| ("add_original Ok".to_string(), format!("{e:?}")))?; }
                let restored: Vec<(usize, Vec<u8>)> = {
                    let res = dec.decode().map_err(|e| ("decode Ok".to_string(), format!("{e:?}")))?;
                    res.restored_original_iter().map(|(i, s)| (i, s.to_vec())).collect()
                };
                let exp: Vec<(usize, Vec<u8>)> = (0..m).map(|i| (i, originals[i].clone())).collect();
                if restored != exp {
                    return Err((format!("after resets {:?}: default decoder restores {ded}-rate shards", &seq[..=step]), "wrong restored set or bytes".to_string()));
                }
                n += 2;
            }
            Ok(n)
        })
    });
    match res {
        Ok(r) => r,
        Err(p) => Err(("no panic".into(), format!("PANIC: {p}"))),
    }
}

fn parse_seq(s: &str) -> Vec<(usize, usize)> {
    s.split(';').map(|p| {
        let (a, b) = p.split_once(':').expect("k:r");
        (a.parse().unwrap(), b.parse().unwrap())
    }).collect()
}
fn fmt_seq(s: &[(usize, usize)]) -> String {
    s.iter().map(|(k, r)| format!("{k}:{r}")).collect::<Vec<_>>().join(";")
}

fn run_case(kv: &Kv) -> Result<(u64, bool), V> {
    match kv.str("what") {
        "cfg" => check_cfg(kv.str("eng"), kv.usize("k"), kv.usize("r"), kv.str("data"), kv.u64("seed")),
        "hist" => check_history(kv.str("eng"), kv.str("layer"), &parse_seq(kv.str("seq")), kv.u64("seed"), kv.opt("failing") == Some("1")).map(|n| (n, true)),
        w => panic!("what {w}"),
    }
}

pub fn replay(_ctx: &Ctx, case: &str) -> Result<(), String> {
    let kv = Kv::parse(case)?;
    run_case(&kv).map(|_| ()).map_err(|(e, o)| format!("expected {e}; observed {o}"))
}

pub fn run(ctx: &Ctx, rep: &mut Report) {
    let seed = ctx.seed;
    rep.rule = "case = (engine, (k,r)): default-rate encoder (and ReedSolomonEncoder, one-shot encode on the default engine) byte-equal to the dedicated codec chosen by the rule np2(k)>np2(r) or (equal and k<=r) -> high, on basis-in-slots data (equality of the whole generator), and the default decoders decode the dedicated encoder's shards; histories = every sequence of up to 3 configurations from a 9-member alphabet on one object; non-trivial = configurations where the high- and low-rate codes really differ (so the rule is observable), and all histories; distinct by (engine,k,r) / (engine,layer,sequence)".into();
    let (nmax, amax) = if ctx.thorough() { (130usize, 40usize) } else { (40, 12) };
    let mut cases = Vec::new();
    for k in 1..=nmax {
        for r in 1..=nmax {
            let engs: Vec<&str> = if k <= amax && r <= amax { engines_all() } else { vec!["nosimd"] };
            for eng in engs {
                let data = if k <= 24 { "basis".to_string() } else { "dense:64".to_string() };
                cases.push(Kv::new().with("what", "cfg").with("eng", eng).with("k", k).with("r", r).with("data", data).with("seed", seed));
            }
        }
    }
    rep.bound("cfg", J::s(format!("[1..{nmax}]^2 on nosimd, [1..{amax}]^2 on all engines (basis-in-slots data up to k=24, dense above)")));
    {
        let grid: Vec<usize> = if ctx.thorough() {
            vec![1, 2, 3, 5, 8, 9, 16, 17, 31, 32, 33, 63, 64, 65, 127, 128, 129, 255, 256, 257, 511, 512, 513, 1023, 1024, 1025, 2047, 2048, 2049, 4095, 4096, 4097, 8191, 8192, 8193]
        } else {
            vec![1, 3, 8, 17, 32, 33, 64, 65, 127, 128, 129, 255, 256, 257, 512, 513, 1024, 1025, 2048, 2049, 4096, 4097]
        };
        for (gi, &k) in grid.iter().enumerate() {
            for (gj, &r) in grid.iter().enumerate() {
                if (k <= nmax && r <= nmax) || !spec_supports(Kind::Def, k, r) {
                    continue;
                }
                let eng = if (gi + gj) % 2 == 0 || !engines_fast().contains(&"avx2") { "nosimd" } else { "avx2" };
                let eng = if (gi * 7 + gj) % 5 == 0 { "default" } else { eng };
                cases.push(Kv::new().with("what", "cfg").with("eng", eng).with("k", k).with("r", r).with("data", if k + r > 3000 { "dense:2" } else { "dense:64" }).with("seed", seed));
            }
        }
        rep.bound("grid", J::s(format!("{grid:?} squared (configurations beyond the dense square), nosimd/avx2/default in rotation")));
    }
    if ctx.thorough() {
        for n in 1..=15u32 {
            for a in [-1i64, 0, 1] {
                for b in [-1i64, 0, 1] {
                    let (k, r) = (((1i64 << n) + a) as usize, ((1i64 << n) + b) as usize);
                    if k >= 1 && r >= 1 && spec_supports(Kind::Def, k, r) && (k > nmax || r > nmax) {
                        let eng = if engines_fast().contains(&"avx2") { "avx2" } else { "nosimd" };
                        cases.push(Kv::new().with("what", "cfg").with("eng", eng).with("k", k).with("r", r).with("data", "dense:2").with("seed", seed));
                    }
                }
            }
        }
        rep.bound("pow2_neighbours", J::s("(2^n+a, 2^n+b), a,b in {-1,0,1}, n<=15, inside the envelope"));
    }
    // other shard geometries: short final block, long shards, several MiB through one call
    for k in 1..=6usize {
        for r in 1..=6usize {
            for eng in engines_all() {
                for data in ["dense:66", "dense:4162"] {
                    if data == "dense:4162" && (k + r) % 3 != 0 {
                        continue;
                    }
                    cases.push(Kv::new().with("what", "cfg").with("eng", eng).with("k", k).with("r", r).with("data", data).with("seed", seed));
                }
            }
        }
    }
    for (k, r) in [(3usize, 2usize), (2, 3), (5, 5)] {
        for data in ["dense:1048576", "dense:1048642", "dense:2101314"] {
            if !ctx.thorough() && (k == 5) != (data == "dense:1048642") {
                continue;
            }
            cases.push(Kv::new().with("what", "cfg").with("eng", "default").with("k", k).with("r", r).with("data", data).with("seed", seed));
        }
    }
    rep.bound("geometries", J::s("[1..6]^2 x every engine with 66-byte shards (4162 bytes when (k+r)%3==0); (3,2) (2,3) (5,5) on the default engine with shards of 1 MiB, 1 MiB+66, 2 MiB+4162 (quick: a fixed half) through every layer"));
    let alpha = [(3usize, 3usize), (3, 4), (3, 5), (4, 3), (5, 3), (9, 2), (2, 9), (17, 16), (16, 17)];
    let depth = 3;
    let mut seqs: Vec<Vec<(usize, usize)>> = vec![vec![]];
    let mut all: Vec<Vec<(usize, usize)>> = Vec::new();
    for _ in 0..depth {
        let mut next = Vec::new();
        for s in &seqs {
            for a in alpha {
                let mut t = s.clone();
                t.push(a);
                next.push(t);
            }
        }
        all.extend(next.iter().cloned());
        seqs = next;
    }
    for s in &all {
        if s.len() < 2 {
            continue;
        }
        for (eng, layer) in [("nosimd", "def"), ("default", "rs"), ("avx2", "def")] {
            if eng == "avx2" && (!engines_fast().contains(&"avx2") || (!ctx.thorough() && s.len() > 2)) {
                continue;
            }
            cases.push(Kv::new().with("what", "hist").with("eng", eng).with("layer", layer).with("seq", fmt_seq(s)).with("seed", seed).with("failing", 0));
            if eng != "avx2" {
                cases.push(Kv::new().with("what", "hist").with("eng", eng).with("layer", layer).with("seq", fmt_seq(s)).with("seed", seed).with("failing", 1));
            }
        }
    }
    rep.bound("histories", J::s(format!("all sequences of 2..={depth} configurations over {alpha:?} on DefaultRate<NoSimd> and ReedSolomonEncoder/Decoder (DefaultRate<Avx2>: length 2 in quick, 3 in thorough); each history also with a rejected reset (same counts, invalid shard size) before every reset")));

    let results: Vec<Result<(u64, bool), V>> = par_for(cases.len(), 4, |i| match guard(|| run_case(&cases[i])) {
        Ok(r) => r,
        Err(p) => Err(("no panic".into(), format!("PANIC: {p}"))),
    });
    let mut differ_cfgs = 0u64;
    let mut same_cfgs = 0u64;
    for (kv, res) in cases.iter().zip(results) {
        rep.states += 1;
        match res {
            Ok((n, differ)) => {
                rep.evaluations += n;
                rep.traces += n;
                rep.transitions += n;
                if differ {
                    rep.distinct += 1;
                    if kv.str("what") == "cfg" {
                        differ_cfgs += 1;
                    }
                } else {
                    same_cfgs += 1;
                }
            }
            Err((exp, obs)) => rep.violation(Violation {
                key: format!("{}-{}-{}", kv.str("what"), kv.str("eng"), if kv.str("what") == "cfg" { format!("k{}r{}-{}", kv.str("k"), kv.str("r"), kv.str("data").replace(':', "")) } else { format!("{}-{}-f{}", kv.str("layer"), kv.str("seq"), kv.opt("failing").unwrap_or("0")) }),
                case: kv.dump(),
                expected: exp,
                observed: obs,
            }),
        }
    }
    rep.extra("cfg_cases_where_rates_differ", J::i(differ_cfgs));
    rep.extra("cfg_cases_where_rates_coincide", J::i(same_cfgs));
    for i in [0, cases.len() / 3, cases.len() / 2, cases.len() - 1] {
        rep.sample(cases[i].dump());
    }
}
