//! Emulation of the handful of AArch64 Neon intrinsics used by engine_neon.rs, with
//! architectural semantics (Arm ARM: TBL returns 0 for out-of-range indexes; USHR per lane).
#![allow(non_camel_case_types, clippy::missing_safety_doc)]

use std::sync::atomic::{AtomicBool, Ordering};

#[derive(Clone, Copy)]
pub struct uint8x16_t(pub [u8; 16]);

pub unsafe fn vld1q_u8(p: *const u8) -> uint8x16_t {
    let mut a = [0u8; 16];
    std::ptr::copy_nonoverlapping(p, a.as_mut_ptr(), 16);
    uint8x16_t(a)
}
pub unsafe fn vst1q_u8(p: *mut u8, v: uint8x16_t) {
    std::ptr::copy_nonoverlapping(v.0.as_ptr(), p, 16);
}
pub unsafe fn vdupq_n_u8(x: u8) -> uint8x16_t {
    uint8x16_t([x; 16])
}
pub unsafe fn vandq_u8(a: uint8x16_t, b: uint8x16_t) -> uint8x16_t {
    let mut o = [0u8; 16];
    for i in 0..16 {
        o[i] = a.0[i] & b.0[i];
    }
    uint8x16_t(o)
}
pub unsafe fn veorq_u8(a: uint8x16_t, b: uint8x16_t) -> uint8x16_t {
    let mut o = [0u8; 16];
    for i in 0..16 {
        o[i] = a.0[i] ^ b.0[i];
    }
    uint8x16_t(o)
}
pub unsafe fn vshrq_n_u8(a: uint8x16_t, n: i32) -> uint8x16_t {
    assert!((1..=8).contains(&n));
    let mut o = [0u8; 16];
    for i in 0..16 {
        o[i] = if n == 8 { 0 } else { a.0[i] >> n };
    }
    uint8x16_t(o)
}
pub unsafe fn vqtbl1q_u8(t: uint8x16_t, idx: uint8x16_t) -> uint8x16_t {
    let mut o = [0u8; 16];
    for i in 0..16 {
        let j = idx.0[i] as usize;
        o[i] = if j < 16 { t.0[j] } else { 0 };
    }
    uint8x16_t(o)
}

/// What `is_aarch64_feature_detected!("neon")` answers in the ported DefaultEngine.
static NEON: AtomicBool = AtomicBool::new(true);
pub fn set_neon_detected(b: bool) {
    NEON.store(b, Ordering::SeqCst);
}
pub fn neon_detected() -> bool {
    NEON.load(Ordering::SeqCst)
        && reed_solomon_simd::verif_hooks::feature_allowed("neon")
}
