//! C13 — encoding is linear over GF(2^16). Oracle-free: only relations between outputs of
//! related inputs are checked (gfref is used for nothing but multiplying by the constant c).
//! Many input vectors are packed one per symbol slot (slots are independent, C04).
use crate::core::*;
use crate::json::J;
use crate::kv::*;
use crate::report::*;
use crate::rt::*;

type V = (String, String);

fn enc(eng: &str, rate: &str, k: usize, r: usize, syms: &[Vec<u16>]) -> Result<Vec<Vec<u16>>, V> {
    let originals: Vec<Vec<u8>> = syms.iter().map(|s| gfref::symbols_to_shard(s)).collect();
    let bytes = originals[0].len();
    let rec = real_encode(eng, rate, k, r, bytes, &originals, 0).map_err(|e| ("encode Ok".to_string(), e))?;
    Ok(rec.iter().map(|s| gfref::shard_to_symbols(s)).collect())
}

/// zero -> zero
fn check_zero(eng: &str, rate: &str, k: usize, r: usize) -> Result<u64, V> {
    for slots in [32usize, 33] {
        let out = enc(eng, rate, k, r, &vec![vec![0u16; slots]; k])?;
        for j in 0..r {
            if out[j].iter().any(|x| *x != 0) {
                return Err((format!("recovery[{j}] of all-zero originals is all zero"), format!("{:x?}", &out[j][..8.min(slots)])));
            }
        }
    }
    Ok(2)
}

/// every symbol value on coordinate axis i: f(v) == XOR of f(2^b) over the set bits of v
fn check_axis(eng: &str, rate: &str, k: usize, r: usize, i: usize, extra_slot: bool) -> Result<u64, V> {
    let slots = 65536 + if extra_slot { 1 } else { 0 };
    let mut syms = vec![vec![0u16; slots]; k];
    for v in 0..65536usize {
        syms[i][v] = v as u16;
    }
    let out = enc(eng, rate, k, r, &syms)?;
    for j in 0..r {
        let basis: Vec<u16> = (0..16).map(|b| out[j][1 << b]).collect();
        for v in 0..65536usize {
            let mut want = 0u16;
            for b in 0..16 {
                if v >> b & 1 != 0 {
                    want ^= basis[b];
                }
            }
            if out[j][v] != want {
                return Err((format!("f_{j}(original {i} = {v:#06x}) == XOR of f over its bits = {want:#06x}"), format!("{:#06x}", out[j][v])));
            }
        }
    }
    Ok((r * 65536) as u64)
}

/// all inputs of GF(2)-weight <= 3 in the 16k-bit basis, packed one per slot
fn check_weight3(eng: &str, rate: &str, k: usize, r: usize) -> Result<u64, V> {
    let nb = 16 * k;
    // list of inputs: each is a set of up to 3 basis indexes (i*16+b)
    let mut inputs: Vec<[usize; 3]> = Vec::new(); // usize::MAX = unused
    const U: usize = usize::MAX;
    for a in 0..nb {
        inputs.push([a, U, U]);
    }
    for a in 0..nb {
        for b in a + 1..nb {
            inputs.push([a, b, U]);
        }
    }
    // triples: all for k <= 3, else those spanning at least two different originals with a fixed stride
    for a in 0..nb {
        for b in a + 1..nb {
            for c in b + 1..nb {
                if k > 3 && (a / 16 == c / 16 || (a + b + c) % 5 != 0) {
                    continue;
                }
                inputs.push([a, b, c]);
            }
        }
    }
    let slots = inputs.len();
    let mut syms = vec![vec![0u16; slots]; k];
    for (s, inp) in inputs.iter().enumerate() {
        for &x in inp {
            if x != U {
                syms[x / 16][s] ^= 1 << (x % 16);
            }
        }
    }
    let out = enc(eng, rate, k, r, &syms)?;
    for j in 0..r {
        for (s, inp) in inputs.iter().enumerate() {
            let mut want = 0u16;
            for &x in inp {
                if x != U {
                    want ^= out[j][x]; // slot x holds the basis vector x itself
                }
            }
            if out[j][s] != want {
                return Err((format!("f_{j}(sum of basis vectors {:?}) == XOR of their outputs = {want:#06x}", inp.iter().filter(|x| **x != U).collect::<Vec<_>>()), format!("{:#06x}", out[j][s])));
            }
        }
    }
    Ok((r * slots) as u64)
}

/// every field constant c times basis vector (i,b): f(c*e) == c*f(e)
fn check_scalar(f: &gfref::Field, eng: &str, rate: &str, k: usize, r: usize, i: usize, b: usize) -> Result<u64, V> {
    let e = 1u16 << b;
    let mut syms = vec![vec![0u16; 65536]; k];
    for c in 0..65536usize {
        syms[i][c] = f.mul(c as u16, e);
    }
    let out = enc(eng, rate, k, r, &syms)?;
    let one = f.one() as usize;
    for j in 0..r {
        let fe = out[j][one];
        for c in 0..65536usize {
            let want = f.mul(c as u16, fe);
            if out[j][c] != want {
                return Err((format!("f_{j}({c:#06x} * e_({i},{b})) == {c:#06x} * f_{j}(e) = {want:#06x}"), format!("{:#06x}", out[j][c])));
            }
        }
    }
    Ok((r * 65536) as u64)
}

/// dense a, b, a^b
fn check_dense(eng: &str, rate: &str, k: usize, r: usize, bytes: usize, seed: u64) -> Result<u64, V> {
    let a = data_dense(k, bytes, seed);
    let b = data_dense(k, bytes, seed ^ 0xFEED);
    let ab: Vec<Vec<u8>> = a.iter().zip(&b).map(|(x, y)| x.iter().zip(y).map(|(p, q)| p ^ q).collect()).collect();
    let ra = real_encode(eng, rate, k, r, bytes, &a, 0).map_err(|e| ("encode Ok".to_string(), e))?;
    let rb = real_encode(eng, rate, k, r, bytes, &b, seed | 1).map_err(|e| ("encode Ok".to_string(), e))?;
    let rab = real_encode(eng, rate, k, r, bytes, &ab, 0).map_err(|e| ("encode Ok".to_string(), e))?;
    for j in 0..r {
        let x: Vec<u8> = ra[j].iter().zip(&rb[j]).map(|(p, q)| p ^ q).collect();
        if x != rab[j] {
            return Err((format!("recovery[{j}](a^b) == recovery(a)^recovery(b) = {}", hex(&x)), hex(&rab[j])));
        }
    }
    Ok(r as u64)
}

/// structured data a (an all-zero shard, two equal shards, 0xFFFF, equal halves, 0/1/0xFFFF cycles - the values a
/// data-dependent short cut would single out), dense b: rec(a^b) == rec(a)^rec(b), and rec(a) equals the XOR of
/// the recoveries of a's shards taken one at a time (all other shards zero)
fn check_special(eng: &str, rate: &str, k: usize, r: usize, bytes: usize, seed: u64) -> Result<u64, V> {
    let e = |d: &Vec<Vec<u8>>, soil: u64| real_encode(eng, rate, k, r, bytes, d, soil).map_err(|e| ("encode Ok".to_string(), e));
    let a = data_special(k, bytes);
    let b = data_dense(k, bytes, seed ^ 0x5EC1);
    let ra = e(&a, 0)?;
    let rb = e(&b, seed | 1)?;
    let rab = e(&xor_sets(&a, &b), 0)?;
    if xor_sets(&ra, &rb) != rab {
        let j = (0..r).find(|j| ra[*j].iter().zip(&rb[*j]).map(|(p, q)| p ^ q).collect::<Vec<u8>>() != rab[*j]).unwrap_or(0);
        return Err((format!("recovery[{j}](special ^ dense) == recovery(special) ^ recovery(dense)"), hex(&rab[j])));
    }
    let mut n = r as u64;
    if k <= 12 {
        let mut acc = vec![vec![0u8; bytes]; r];
        for i in 0..k {
            let mut one = vec![vec![0u8; bytes]; k];
            one[i] = a[i].clone();
            acc = xor_sets(&acc, &e(&one, if i % 2 == 0 { seed | 1 } else { 0 })?);
            n += r as u64;
        }
        if acc != ra {
            let j = (0..r).find(|j| acc[*j] != ra[*j]).unwrap_or(0);
            return Err((format!("recovery[{j}](special) == XOR of the recoveries of its shards one at a time = {}", hex(&acc[j])), hex(&ra[j])));
        }
    }
    Ok(n)
}

fn xor_sets(a: &[Vec<u8>], b: &[Vec<u8>]) -> Vec<Vec<u8>> {
    a.iter().zip(b).map(|(x, y)| x.iter().zip(y).map(|(p, q)| p ^ q).collect()).collect()
}

/// multi-block shards: deltas confined to one 64-byte block of one shard (zero everywhere else), data
/// whose shards are all identical, and the decomposition of a data set into its shards - relations that a
/// data-dependent short cut ("this block / chunk is zero, skip it") breaks
fn check_blocks(eng: &str, rate: &str, k: usize, r: usize, bytes: usize, seed: u64) -> Result<u64, V> {
    let e = |d: &Vec<Vec<u8>>, soil: u64| real_encode(eng, rate, k, r, bytes, d, soil).map_err(|e| ("encode Ok".to_string(), e));
    let a = data_dense(k, bytes, seed ^ 0xB10C);
    let ra = e(&a, 0)?;
    let zero = vec![vec![0u8; bytes]; k];
    let nblocks = bytes.div_ceil(64);
    let mut n = 0u64;
    let mut rng = Rng::new(seed ^ bytes as u64);
    // (1) block-sparse deltas
    let mut parts_xor = vec![vec![0u8; bytes]; r];
    let mut all_delta = zero.clone();
    for i in 0..k {
        for b in 0..nblocks {
            let mut d = zero.clone();
            let (lo, hi) = (b * 64, ((b + 1) * 64).min(bytes));
            rng.fill_nonzero(&mut d[i][lo..hi]);
            all_delta[i][lo..hi].copy_from_slice(&d[i][lo..hi]);
            let rd = e(&d, if (i + b) % 2 == 0 { seed | 1 } else { 0 })?;
            let rad = e(&xor_sets(&a, &d), 0)?;
            let want = xor_sets(&ra, &rd);
            if rad != want {
                let j = (0..r).find(|&j| rad[j] != want[j]).unwrap();
                return Err((format!("recovery[{j}](a ^ delta) == recovery(a) ^ recovery(delta), delta = block {b} of original {i} only ({bytes}-byte shards): {}", hex(&want[j])), hex(&rad[j])));
            }
            parts_xor = xor_sets(&parts_xor, &rd);
            n += 1;
        }
    }
    // (2) the XOR of all those deltas encodes to the XOR of their encodings
    let rall = e(&all_delta, 0)?;
    if rall != parts_xor {
        let j = (0..r).find(|&j| rall[j] != parts_xor[j]).unwrap();
        return Err((format!("recovery[{j}](sum of the block deltas) == XOR of their recoveries = {}", hex(&parts_xor[j])), hex(&rall[j])));
    }
    // (3) identical shards and one-shard-at-a-time decomposition
    let same: Vec<Vec<u8>> = vec![a[0].clone(); k];
    let rsame = e(&same, 0)?;
    let mut acc = vec![vec![0u8; bytes]; r];
    for i in 0..k {
        let mut d = zero.clone();
        d[i] = a[0].clone();
        acc = xor_sets(&acc, &e(&d, 0)?);
    }
    if rsame != acc {
        let j = (0..r).find(|&j| rsame[j] != acc[j]).unwrap();
        return Err((format!("recovery[{j}](k identical shards) == XOR over i of recovery(that shard at position i alone) = {}", hex(&acc[j])), hex(&rsame[j])));
    }
    Ok(n + 2)
}

fn run_case(f: &gfref::Field, kv: &Kv) -> Result<u64, V> {
    let (eng, rate, k, r) = (kv.str("eng"), kv.str("rate"), kv.usize("k"), kv.usize("r"));
    match kv.str("test") {
        "zero" => check_zero(eng, rate, k, r),
        "axis" => check_axis(eng, rate, k, r, kv.usize("i"), kv.usize("x") == 1),
        "weight3" => check_weight3(eng, rate, k, r),
        "scalar" => check_scalar(f, eng, rate, k, r, kv.usize("i"), kv.usize("b")),
        "dense" => check_dense(eng, rate, k, r, kv.usize("bytes"), kv.u64("seed")),
        "special" => check_special(eng, rate, k, r, kv.usize("bytes"), kv.u64("seed")),
        "blocks" => check_blocks(eng, rate, k, r, kv.usize("bytes"), kv.u64("seed")),
        t => panic!("test {t}"),
    }
}

pub fn replay(_ctx: &Ctx, case: &str) -> Result<(), String> {
    let kv = Kv::parse(case)?;
    run_case(&gfref::Field::new(), &kv).map(|_| ()).map_err(|(e, o)| format!("expected {e}; observed {o}"))
}

pub fn run(ctx: &Ctx, rep: &mut Report) {
    let f = gfref::Field::new();
    rep.rule = "per (engine, rate, (k,r)): zero->zero; every one of the 65536 symbol values on every coordinate axis equals the XOR of the outputs of its bits; every input of GF(2)-weight <= 3 over the 16k basis bits (all pairs; all triples for k<=3, cross-original triples on a fixed stride above) equals the XOR of basis outputs; every field constant times every basis vector; dense a,b,a^b at 64/66 bytes; structured-value data (zero shard, equal shards, 0xFFFF, equal halves, 0/1/0xFFFF cycles) against dense data and against its one-shard-at-a-time decomposition; with 192/200-byte shards: every delta confined to one 64-byte block of one shard, the sum of all of them, k identical shards against their one-at-a-time decomposition; non-trivial = every relation checked on a non-zero input; distinct by (test,engine,rate,k,r,axis/bit)".into();
    rep.assume("input vectors are packed one per 16-bit slot; slots do not interact (C04)");
    let mut cfgs: Vec<(usize, usize)> = Vec::new();
    let kmax = if ctx.thorough() { 9 } else { 5 };
    for k in 1..=kmax {
        for r in 1..=kmax {
            cfgs.push((k, r));
        }
    }
    if ctx.thorough() {
        cfgs.push((33, 3));
        cfgs.push((3, 33));
    }
    let mut cases = Vec::new();
    for &eng in &engines_all() {
        if eng == "default" {
            continue; // identical object code to avx2/ssse3/nosimd (C14 shows which); C09 ties it to them
        }
        let slow = eng == "naive" || eng == "neonemu";
        for rate in ["high", "low"] {
            for &(k, r) in &cfgs {
                let base = Kv::new().with("eng", eng).with("rate", rate).with("k", k).with("r", r);
                cases.push(base.clone().with("test", "zero"));
                cases.push(base.clone().with("test", "weight3"));
                for bytes in [64usize, 66] {
                    cases.push(base.clone().with("test", "dense").with("bytes", bytes).with("seed", ctx.seed));
                }
                for bytes in [64usize, 130] {
                    if slow && bytes == 130 && !ctx.thorough() {
                        continue;
                    }
                    cases.push(base.clone().with("test", "special").with("bytes", bytes).with("seed", ctx.seed));
                }
                for bytes in [192usize, 200] {
                    if slow && (k + r > 6 || bytes == 200) && !ctx.thorough() {
                        continue;
                    }
                    cases.push(base.clone().with("test", "blocks").with("bytes", bytes).with("seed", ctx.seed));
                }
                let thin = !ctx.thorough() && (slow && k + r > 4 || k + r > 8) || ctx.thorough() && slow && k + r > 8;
                for i in 0..k {
                    if thin && i != (k + r) % k {
                        continue;
                    }
                    cases.push(base.clone().with("test", "axis").with("i", i).with("x", (i + r) % 2));
                    for b in 0..16 {
                        if thin && b != (i + r) % 16 || !ctx.thorough() && (b + i + k) % 2 != 0 {
                            continue;
                        }
                        cases.push(base.clone().with("test", "scalar").with("i", i).with("b", b));
                    }
                }
            }
        }
    }
    // mid-size configurations (several chunks on the transformed side, counts around 32/64-position words)
    let mids: Vec<(usize, usize)> = if ctx.thorough() { vec![(20, 12), (12, 20), (33, 31), (70, 40), (40, 70), (100, 36), (36, 100), (64, 64), (130, 9), (9, 130)] } else { vec![(20, 12), (12, 20), (33, 31), (70, 40), (40, 70)] };
    for &eng in &engines_all() {
        if eng == "default" || (eng == "naive" || eng == "neonemu") && !ctx.thorough() {
            continue;
        }
        for rate in ["high", "low"] {
            for &(k, r) in &mids {
                let base = Kv::new().with("eng", eng).with("rate", rate).with("k", k).with("r", r);
                cases.push(base.clone().with("test", "zero"));
                cases.push(base.clone().with("test", "dense").with("bytes", 66).with("seed", ctx.seed));
                cases.push(base.clone().with("test", "special").with("bytes", 64).with("seed", ctx.seed));
                cases.push(base.clone().with("test", "special").with("bytes", 130).with("seed", ctx.seed));
                cases.push(base.clone().with("test", "blocks").with("bytes", 192).with("seed", ctx.seed));
            }
        }
    }
    rep.bound("mid_size_cfg", J::s(format!("{mids:?} x {{high,low}} x {{nosimd,ssse3,avx2}} (thorough: every engine): zero, dense pairs, structured-value data (sum and one-shard-at-a-time decomposition), block-confined deltas")));
    rep.bound("cfg", J::s(format!("[1..{kmax}]^2{} x {{high,low}} x {{naive,nosimd,ssse3,avx2,neonemu}}", if ctx.thorough() { " + (33,3) (3,33)" } else { "" })));
    rep.bound("axis_scalar_thinning", J::s("quick: for slow engines with k+r>4 and for k+r>8 one fixed axis and one fixed bit per configuration, else every axis and every 2nd bit; thorough: every axis and bit except slow engines with k+r>8 (one fixed axis/bit)"));
    let results: Vec<Result<u64, V>> = par_for(cases.len(), 1, |i| match guard(|| run_case(&f, &cases[i])) {
        Ok(r) => r,
        Err(p) => Err(("no panic".into(), format!("PANIC: {p}"))),
    });
    for (kv, res) in cases.iter().zip(results) {
        rep.states += 1;
        rep.traces += 1;
        rep.distinct += 1;
        match res {
            Ok(n) => {
                rep.evaluations += n;
                rep.transitions += n;
            }
            Err((exp, obs)) => rep.violation(Violation {
                key: format!("{}-{}-{}-k{}r{}-{}{}", kv.str("test"), kv.str("eng"), kv.str("rate"), kv.str("k"), kv.str("r"), kv.opt("i").or(kv.opt("bytes")).unwrap_or(""), kv.opt("b").map(|b| format!("b{b}")).unwrap_or_default()),
                case: kv.dump(),
                expected: exp,
                observed: obs,
            }),
        }
    }
    for i in [0, cases.len() / 3, cases.len() / 2, cases.len() - 1] {
        rep.sample(cases[i].dump());
    }
    let _ = fmt_usize(0);
}
