//! C14 — the default engine runs only SIMD code the CPU reports and picks the best.
//! The quantifier (all subsets of the SIMD features the crate knows for the architecture, as seen by
//! runtime detection) is enumerated completely: one fresh process per feature mask, in which an
//! operation alphabet over everything built on DefaultEngine is executed and the trace of
//! target_feature entry points is checked after every operation.
use std::process::Command;

use crate::core::*;
use crate::json::J;
use crate::kv::*;
use crate::prim::*;
use crate::report::*;
use reed_solomon_simd::engine::{DefaultEngine, Engine};
use reed_solomon_simd::rate::{DefaultRateDecoder, DefaultRateEncoder, RateDecoder, RateEncoder};
use reed_solomon_simd::verif_hooks as vh;

#[cfg(not(no_aarch64_port))]
type DefaultAarch64 = crate::default_aarch64_port::DefaultEngine;

const ISA_NAMES: [&str; 4] = ["portable", "ssse3", "avx2", "neon"];
const PRIM_NAMES: [&str; 4] = ["mul", "fft", "ifft", "eval_poly"];

fn best_isa_x86(mask: u32) -> usize {
    if mask & vh::FEATURE_AVX2 != 0 && std::is_x86_feature_detected!("avx2") {
        vh::ISA_AVX2
    } else if mask & vh::FEATURE_SSSE3 != 0 && std::is_x86_feature_detected!("ssse3") {
        vh::ISA_SSSE3
    } else {
        vh::ISA_PORTABLE
    }
}

/// check the trace of one operation group: everything that ran must have run on `best`
fn judge(name: &str, best: usize, must_run: &[usize]) -> Result<String, String> {
    let t = vh::trace_snapshot();
    let core = vh::core_snapshot();
    vh::trace_reset();
    let mut desc = Vec::new();
    // the shared eval_poly building block must only ever run inside an ISA-specific entry point:
    // reached any other way it is baseline-compiled code, which is only right when nothing better is reported
    let attributed: u64 = (0..vh::ISA_COUNT).map(|isa| t[isa][vh::PRIM_EVAL_POLY]).sum();
    if core[vh::PRIM_EVAL_POLY] > attributed && best != vh::ISA_PORTABLE {
        return Err(format!("{name}: polynomial evaluation ran {} time(s) outside every ISA-specific entry point (baseline code) although the best reported ISA is '{}'", core[vh::PRIM_EVAL_POLY] - attributed, ISA_NAMES[best]));
    }
    for isa in 0..vh::ISA_COUNT {
        for prim in 0..vh::PRIM_COUNT {
            if t[isa][prim] > 0 {
                desc.push(format!("{}:{}x{}", ISA_NAMES[isa], PRIM_NAMES[prim], t[isa][prim]));
                if isa != best {
                    return Err(format!("{name}: primitive {} executed code compiled for '{}' {} times although the best reported ISA is '{}'", PRIM_NAMES[prim], ISA_NAMES[isa], t[isa][prim], ISA_NAMES[best]));
                }
            }
        }
    }
    for &p in must_run {
        if p == vh::PRIM_EVAL_POLY && core[p] > 0 && best == vh::ISA_PORTABLE {
            continue; // ran as baseline code, which is the best available
        }
        if t[best][p] == 0 {
            // nothing ran on a wrong ISA (checked above) and nothing on the best one: no trace point was
            // reached at all for this primitive - the instrumentation does not see it (machinery, not a verdict)
            return Err(format!("UNTRACED {name}: primitive {} reached no trace point on any ISA (trace: {desc:?})", PRIM_NAMES[p]));
        }
    }
    Ok(format!("{name}[{}]", desc.join(",")))
}

fn hash_shards(h: &mut u64, v: &[Vec<u8>]) {
    for s in v {
        *h = (*h ^ fnv(s)).wrapping_mul(0x100_0000_01b3);
    }
}

/// child process: args = [arch, mask, seed]
pub fn child(args: &[String]) {
    let arch = args[0].as_str();
    let mask: u32 = args[1].parse().unwrap();
    let seed: u64 = args[2].parse().unwrap();
    vh::set_feature_mask(mask);
    vh::trace_reset();
    let mut log: Vec<String> = Vec::new();
    let mut digest: u64 = 0xcbf2_9ce4_8422_2325;
    let mut fail: Option<String> = None;
    let mut step = |r: Result<String, String>, log: &mut Vec<String>, fail: &mut Option<String>| match r {
        Ok(s) => log.push(s),
        Err(e) => {
            if fail.is_none() {
                *fail = Some(e);
            }
        }
    };
    let res = guard(|| {
        if arch == "x86" {
            let best = best_isa_x86(mask);
            // --- primitives on the engine object
            let e = DefaultEngine::new();
            step(judge("DefaultEngine::new", best, &[]), &mut log, &mut fail);
            let mut rng = Rng::new(seed);
            let mut buf = Buf::random(16, 2, &mut rng);
            e.fft(&mut buf.refmut(), 0, 8, 8, 8);
            step(judge("fft", best, &[vh::PRIM_FFT]), &mut log, &mut fail);
            // ifft is specified only when the inputs beyond truncated_size are zero (C15): make them so
            buf.zero_shards(8 + 5, 16);
            e.ifft(&mut buf.refmut(), 8, 8, 5, 16);
            step(judge("ifft", best, &[vh::PRIM_IFFT]), &mut log, &mut fail);
            e.mul(&mut buf.data[0..2], 12345);
            step(judge("mul", best, &[vh::PRIM_MUL]), &mut log, &mut fail);
            digest ^= fnv(buf.data.as_flattened());
            let ep = eval_poly_of::<DefaultEngine>(&[1, 5, 9], 16);
            step(judge("DefaultEngine::eval_poly", best, &[vh::PRIM_EVAL_POLY]), &mut log, &mut fail);
            digest = (digest ^ fnv(&ep.iter().flat_map(|x| x.to_le_bytes()).collect::<Vec<u8>>())).wrapping_mul(31);
            // --- ReedSolomonEncoder / Decoder, both rates, reset across rates
            for (k, r) in [(5usize, 3usize), (3, 5), (2, 9)] {
                let originals = data_dense(k, 66, seed);
                let mut enc = reed_solomon_simd::ReedSolomonEncoder::new(2, 2, 64).unwrap();
                enc.reset(k, r, 66).unwrap();
                for o in &originals {
                    enc.add_original_shard(o).unwrap();
                }
                let rec: Vec<Vec<u8>> = enc.encode().unwrap().recovery_iter().map(|s| s.to_vec()).collect();
                step(judge(&format!("ReedSolomonEncoder({k},{r})"), best, &[vh::PRIM_FFT, vh::PRIM_IFFT]), &mut log, &mut fail);
                hash_shards(&mut digest, &rec);
                let mut dec = reed_solomon_simd::ReedSolomonDecoder::new(2, 2, 64).unwrap();
                dec.reset(k, r, 66).unwrap();
                let m = k.min(r);
                for j in 0..m {
                    dec.add_recovery_shard(j, &rec[j]).unwrap();
                }
                for i in m..k {
                    dec.add_original_shard(i, &originals[i]).unwrap();
                }
                let restored: Vec<Vec<u8>> = dec.decode().unwrap().restored_original_iter().map(|(_, s)| s.to_vec()).collect();
                step(judge(&format!("ReedSolomonDecoder({k},{r})"), best, &[vh::PRIM_FFT, vh::PRIM_IFFT, vh::PRIM_MUL, vh::PRIM_EVAL_POLY]), &mut log, &mut fail);
                hash_shards(&mut digest, &restored);
                if restored != originals[..m].to_vec() && fail.is_none() {
                    fail = Some(format!("ReedSolomonDecoder({k},{r}) under mask {mask} restored wrong data"));
                }
            }
            // --- one-shot
            let originals = data_dense(3, 64, seed ^ 9);
            let rec = reed_solomon_simd::encode(3, 2, &originals).unwrap();
            step(judge("encode()", best, &[vh::PRIM_FFT, vh::PRIM_IFFT]), &mut log, &mut fail);
            hash_shards(&mut digest, &rec);
            let rest = reed_solomon_simd::decode(3, 2, [(1usize, &originals[1])], [(0usize, &rec[0]), (1, &rec[1])]).unwrap();
            step(judge("decode()", best, &[vh::PRIM_FFT, vh::PRIM_IFFT, vh::PRIM_MUL, vh::PRIM_EVAL_POLY]), &mut log, &mut fail);
            let mut keys: Vec<_> = rest.keys().copied().collect();
            keys.sort();
            for k in keys {
                digest = (digest ^ fnv(&rest[&k])).wrapping_mul(131);
            }
            // --- rate codecs over DefaultEngine
            let mut enc = DefaultRateEncoder::<DefaultEngine>::new(4, 4, 64, DefaultEngine::new(), None).unwrap();
            let o = data_dense(4, 64, seed ^ 3);
            for s in &o {
                enc.add_original_shard(s).unwrap();
            }
            let rec: Vec<Vec<u8>> = enc.encode().unwrap().recovery_iter().map(|s| s.to_vec()).collect();
            hash_shards(&mut digest, &rec);
            let mut dec = DefaultRateDecoder::<DefaultEngine>::new(4, 4, 64, DefaultEngine::default(), None).unwrap();
            for j in 0..4 {
                dec.add_recovery_shard(j, &rec[j]).unwrap();
            }
            let restored: Vec<Vec<u8>> = dec.decode().unwrap().restored_original_iter().map(|(_, s)| s.to_vec()).collect();
            hash_shards(&mut digest, &restored);
            step(judge("DefaultRate<DefaultEngine> round", best, &[vh::PRIM_FFT, vh::PRIM_IFFT, vh::PRIM_MUL, vh::PRIM_EVAL_POLY]), &mut log, &mut fail);
        } else {
            #[cfg(no_aarch64_port)]
            {
                fail = Some("AArch64 arm not available in this build".to_string());
            }
            // AArch64 selection logic, ported at build time over the emulated Neon engine
            #[cfg(not(no_aarch64_port))]
            {
            let best = if mask & vh::FEATURE_NEON != 0 { vh::ISA_NEON } else { vh::ISA_PORTABLE };
            let e = DefaultAarch64::new();
            step(judge("aarch64 DefaultEngine::new", best, &[]), &mut log, &mut fail);
            let mut rng = Rng::new(seed);
            let mut buf = Buf::random(16, 2, &mut rng);
            e.fft(&mut buf.refmut(), 0, 8, 8, 8);
            step(judge("aarch64 fft", best, &[vh::PRIM_FFT]), &mut log, &mut fail);
            // ifft is specified only when the inputs beyond truncated_size are zero (C15): make them so
            buf.zero_shards(8 + 5, 16);
            e.ifft(&mut buf.refmut(), 8, 8, 5, 16);
            step(judge("aarch64 ifft", best, &[vh::PRIM_IFFT]), &mut log, &mut fail);
            e.mul(&mut buf.data[0..2], 12345);
            step(judge("aarch64 mul", best, &[vh::PRIM_MUL]), &mut log, &mut fail);
            digest ^= fnv(buf.data.as_flattened());
            let mut er: Box<[u16; 65536]> = vec![0u16; 65536].into_boxed_slice().try_into().unwrap();
            er[1] = 1;
            er[5] = 1;
            er[9] = 1;
            DefaultAarch64::eval_poly(&mut er, 16);
            step(judge("aarch64 DefaultEngine::eval_poly", best, &[vh::PRIM_EVAL_POLY]), &mut log, &mut fail);
            digest = (digest ^ fnv(&er.iter().flat_map(|x| x.to_le_bytes()).collect::<Vec<u8>>())).wrapping_mul(31);
            for (k, r) in [(5usize, 3usize), (3, 5)] {
                let originals = data_dense(k, 66, seed);
                let mut enc = DefaultRateEncoder::<DefaultAarch64>::new(k, r, 66, DefaultAarch64::new(), None).unwrap();
                for o in &originals {
                    enc.add_original_shard(o).unwrap();
                }
                let rec: Vec<Vec<u8>> = enc.encode().unwrap().recovery_iter().map(|s| s.to_vec()).collect();
                hash_shards(&mut digest, &rec);
                let mut dec = DefaultRateDecoder::<DefaultAarch64>::new(k, r, 66, DefaultAarch64::default(), None).unwrap();
                let m = k.min(r);
                for j in 0..m {
                    dec.add_recovery_shard(j, &rec[j]).unwrap();
                }
                for i in m..k {
                    dec.add_original_shard(i, &originals[i]).unwrap();
                }
                let restored: Vec<Vec<u8>> = dec.decode().unwrap().restored_original_iter().map(|(_, s)| s.to_vec()).collect();
                hash_shards(&mut digest, &restored);
                step(judge(&format!("aarch64 DefaultRate({k},{r}) round"), best, &[vh::PRIM_FFT, vh::PRIM_IFFT, vh::PRIM_MUL, vh::PRIM_EVAL_POLY]), &mut log, &mut fail);
                if restored != originals[..m].to_vec() && fail.is_none() {
                    fail = Some(format!("aarch64 DefaultRate({k},{r}) under mask {mask} restored wrong data"));
                }
            }
            }
        }
    });
    if let Err(p) = res {
        if fail.is_none() {
            fail = Some(format!("PANIC: {p}"));
        }
    }
    let mut j = J::obj();
    j.set("arch", J::s(arch));
    j.set("mask", J::i(mask));
    j.set("digest", J::s(format!("{digest:016x}")));
    j.set("groups", J::arr_s(log));
    j.set("fail", match fail {
        Some(f) => J::s(f),
        None => J::Null,
    });
    println!("C14CHILD {}", j.dump().replace('\n', " "));
}

fn spawn(arch: &str, mask: u32, seed: u64) -> Result<J, String> {
    let exe = std::env::current_exe().map_err(|e| e.to_string())?;
    let out = Command::new(exe).args(["C14-CHILD", arch, &mask.to_string(), &seed.to_string()]).output().map_err(|e| e.to_string())?;
    let txt = String::from_utf8_lossy(&out.stdout).to_string();
    let line = txt.lines().find(|l| l.starts_with("C14CHILD ")).ok_or_else(|| format!("child produced no result (status {:?}): {} {}", out.status, txt, String::from_utf8_lossy(&out.stderr)))?;
    J::parse(&line["C14CHILD ".len()..])
}

fn mask_name(arch: &str, mask: u32) -> String {
    let mut v = Vec::new();
    if arch == "x86" {
        if mask & vh::FEATURE_AVX2 != 0 {
            v.push("avx2");
        }
        if mask & vh::FEATURE_SSSE3 != 0 {
            v.push("ssse3");
        }
    } else if mask & vh::FEATURE_NEON != 0 {
        v.push("neon");
    }
    if v.is_empty() {
        "none".into()
    } else {
        v.join("+")
    }
}

pub fn replay(ctx: &Ctx, case: &str) -> Result<(), String> {
    let kv = Kv::parse(case)?;
    let j = spawn(kv.str("arch"), kv.usize("mask") as u32, ctx.seed)?;
    match j.get("fail") {
        Some(J::Str(f)) => Err(f.clone()),
        _ => Ok(()),
    }
}

pub fn run(ctx: &Ctx, rep: &mut Report) {
    rep.rule = "one fresh process per subset of {AVX2, SSSE3} (x86 arm, this CPU) and of {Neon} (AArch64 arm of DefaultEngine, ported at build time over the emulated Neon engine); in each, every operation of the alphabet (engine construction, fft, ifft, mul, DefaultEngine::eval_poly, ReedSolomonEncoder/Decoder rounds with resets across rates, one-shot encode/decode, DefaultRate<DefaultEngine> round) is followed by a check of the ISA trace: only the best reported ISA may have executed, for every primitive; results must be identical under every subset; non-trivial = (mask, operation) pairs; distinct by (arch, mask, operation)".into();
    rep.assume("the mask can only hide features this CPU has; which entry points are reached is observed through trace points placed in every #[target_feature] function, NoSimd's Engine methods and the provided Engine::eval_poly");
    rep.assume("a new target_feature entry point without a trace line would be invisible to this check; the shared eval_poly building block carries an ISA-independent counter, so reaching it outside every traced entry point is seen");
    let has_avx2 = std::is_x86_feature_detected!("avx2");
    let has_ssse3 = std::is_x86_feature_detected!("ssse3");
    rep.extra("cpu_avx2", J::Bool(has_avx2));
    rep.extra("cpu_ssse3", J::Bool(has_ssse3));
    let mut plans: Vec<(&str, u32)> = Vec::new();
    for mask in [0u32, vh::FEATURE_SSSE3, vh::FEATURE_AVX2, vh::FEATURE_AVX2 | vh::FEATURE_SSSE3] {
        plans.push(("x86", mask));
    }
    #[cfg(not(no_aarch64_port))]
    for mask in [0u32, vh::FEATURE_NEON] {
        plans.push(("aarch64", mask));
    }
    let results: Vec<Result<J, String>> = par_for(plans.len(), 1, |i| spawn(plans[i].0, plans[i].1, ctx.seed));
    let mut digests: std::collections::BTreeMap<String, Vec<(u32, String)>> = Default::default();
    for ((arch, mask), res) in plans.iter().zip(results) {
        rep.states += 1;
        match res {
            Err(e) => rep.machinery_errors.push(format!("C14 child {arch}/{mask}: {e}")),
            Ok(j) => {
                let groups = match j.get("groups") {
                    Some(J::Arr(a)) => a.len(),
                    _ => 0,
                };
                rep.transitions += groups as u64;
                rep.evaluations += groups as u64;
                rep.distinct += groups as u64;
                rep.traces += 1;
                if let Some(J::Arr(a)) = j.get("groups") {
                    if let Some(J::Str(s)) = a.get(a.len() / 2) {
                        rep.sample(format!("arch={arch} mask={} {}", mask_name(arch, *mask), s));
                    }
                    // positive controls
                    let all: String = a.iter().filter_map(|x| x.as_str()).collect::<Vec<_>>().join(" ");
                    if *arch == "x86" {
                        if *mask & vh::FEATURE_AVX2 != 0 && has_avx2 && !all.contains("avx2:") {
                            rep.machinery_errors.push("positive control failed: full mask but no AVX2 entry point in the trace".into());
                        }
                        if *mask == 0 && (all.contains("avx2:") || all.contains("ssse3:") || !all.contains("portable:")) {
                            // that is a real violation and is reported by the child; nothing to add
                        }
                    } else if *mask & vh::FEATURE_NEON != 0 && !all.contains("neon:") {
                        rep.machinery_errors.push("positive control failed: neon mask but no Neon entry point in the trace".into());
                    }
                }
                if let Some(J::Str(f)) = j.get("fail") {
                    if f.starts_with("UNTRACED") {
                        rep.machinery_errors.push(format!("C14 {arch}/{}: {f}", mask_name(arch, *mask)));
                        continue;
                    }
                    rep.violation(Violation { key: format!("{arch}-mask-{}", mask_name(arch, *mask)), case: Kv::new().with("arch", arch).with("mask", mask).dump(), expected: format!("under feature set {{{}}} only the best reported ISA executes, for every primitive", mask_name(arch, *mask)), observed: f.clone() });
                }
                if let Some(J::Str(d)) = j.get("digest") {
                    digests.entry(arch.to_string()).or_default().push((*mask, d.clone()));
                }
            }
        }
    }
    for (arch, ds) in &digests {
        if let Some((m0, d0)) = ds.first() {
            for (m, d) in ds {
                if d != d0 {
                    rep.violation(Violation { key: format!("{arch}-results-differ-{}", mask_name(arch, *m)), case: Kv::new().with("arch", arch).with("mask", m).dump(), expected: format!("results under {{{}}} identical to results under {{{}}}", mask_name(arch, *m), mask_name(arch, *m0)), observed: format!("digest {d} vs {d0}") });
                }
            }
        }
    }
    rep.bound("masks", J::s("x86: {}, {ssse3}, {avx2}, {avx2,ssse3}; aarch64 (ported): {}, {neon} - the whole quantifier"));
}
