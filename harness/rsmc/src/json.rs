//! Minimal JSON value + writer + reader (no external crates available for this).
use std::collections::BTreeMap;
use std::fmt::Write;

#[derive(Clone, Debug, PartialEq)]
pub enum J {
    Null,
    Bool(bool),
    Int(i128),
    Num(f64),
    Str(String),
    Arr(Vec<J>),
    Obj(BTreeMap<String, J>),
}

impl J {
    pub fn obj() -> J {
        J::Obj(BTreeMap::new())
    }
    pub fn set(&mut self, k: &str, v: J) -> &mut J {
        if let J::Obj(m) = self {
            m.insert(k.to_string(), v);
        } else {
            panic!("set on non-object");
        }
        self
    }
    pub fn get(&self, k: &str) -> Option<&J> {
        if let J::Obj(m) = self {
            m.get(k)
        } else {
            None
        }
    }
    pub fn as_str(&self) -> Option<&str> {
        if let J::Str(s) = self {
            Some(s)
        } else {
            None
        }
    }
    pub fn as_i(&self) -> Option<i128> {
        if let J::Int(i) = self {
            Some(*i)
        } else {
            None
        }
    }
    pub fn s(x: impl Into<String>) -> J {
        J::Str(x.into())
    }
    pub fn i(x: impl TryInto<i128>) -> J {
        J::Int(x.try_into().ok().expect("int"))
    }
    pub fn arr_s<I: IntoIterator<Item = String>>(it: I) -> J {
        J::Arr(it.into_iter().map(J::Str).collect())
    }

    pub fn dump(&self) -> String {
        let mut s = String::new();
        self.write(&mut s, 0);
        s
    }
    fn write(&self, out: &mut String, ind: usize) {
        match self {
            J::Null => out.push_str("null"),
            J::Bool(b) => {
                let _ = write!(out, "{b}");
            }
            J::Int(i) => {
                let _ = write!(out, "{i}");
            }
            J::Num(f) => {
                if f.is_finite() {
                    let _ = write!(out, "{f:.3}");
                } else {
                    out.push_str("null");
                }
            }
            J::Str(s) => write_str(out, s),
            J::Arr(a) => {
                if a.is_empty() {
                    out.push_str("[]");
                    return;
                }
                out.push('[');
                for (i, v) in a.iter().enumerate() {
                    if i > 0 {
                        out.push(',');
                    }
                    out.push('\n');
                    out.push_str(&" ".repeat(ind + 1));
                    v.write(out, ind + 1);
                }
                out.push('\n');
                out.push_str(&" ".repeat(ind));
                out.push(']');
            }
            J::Obj(m) => {
                if m.is_empty() {
                    out.push_str("{}");
                    return;
                }
                out.push('{');
                for (i, (k, v)) in m.iter().enumerate() {
                    if i > 0 {
                        out.push(',');
                    }
                    out.push('\n');
                    out.push_str(&" ".repeat(ind + 1));
                    write_str(out, k);
                    out.push_str(": ");
                    v.write(out, ind + 1);
                }
                out.push('\n');
                out.push_str(&" ".repeat(ind));
                out.push('}');
            }
        }
    }

    pub fn parse(s: &str) -> Result<J, String> {
        let b = s.as_bytes();
        let mut p = 0usize;
        let v = parse_val(b, &mut p)?;
        skip_ws(b, &mut p);
        if p != b.len() {
            return Err(format!("trailing data at {p}"));
        }
        Ok(v)
    }
}

fn write_str(out: &mut String, s: &str) {
    out.push('"');
    for c in s.chars() {
        match c {
            '"' => out.push_str("\\\""),
            '\\' => out.push_str("\\\\"),
            '\n' => out.push_str("\\n"),
            '\r' => out.push_str("\\r"),
            '\t' => out.push_str("\\t"),
            c if (c as u32) < 0x20 => {
                let _ = write!(out, "\\u{:04x}", c as u32);
            }
            c => out.push(c),
        }
    }
    out.push('"');
}

fn skip_ws(b: &[u8], p: &mut usize) {
    while *p < b.len() && (b[*p] as char).is_ascii_whitespace() {
        *p += 1;
    }
}

fn parse_val(b: &[u8], p: &mut usize) -> Result<J, String> {
    skip_ws(b, p);
    if *p >= b.len() {
        return Err("eof".into());
    }
    match b[*p] {
        b'{' => {
            *p += 1;
            let mut m = BTreeMap::new();
            skip_ws(b, p);
            if b[*p] == b'}' {
                *p += 1;
                return Ok(J::Obj(m));
            }
            loop {
                skip_ws(b, p);
                let k = match parse_val(b, p)? {
                    J::Str(s) => s,
                    _ => return Err("key".into()),
                };
                skip_ws(b, p);
                if b[*p] != b':' {
                    return Err("colon".into());
                }
                *p += 1;
                let v = parse_val(b, p)?;
                m.insert(k, v);
                skip_ws(b, p);
                match b[*p] {
                    b',' => *p += 1,
                    b'}' => {
                        *p += 1;
                        return Ok(J::Obj(m));
                    }
                    _ => return Err("obj sep".into()),
                }
            }
        }
        b'[' => {
            *p += 1;
            let mut a = Vec::new();
            skip_ws(b, p);
            if b[*p] == b']' {
                *p += 1;
                return Ok(J::Arr(a));
            }
            loop {
                a.push(parse_val(b, p)?);
                skip_ws(b, p);
                match b[*p] {
                    b',' => *p += 1,
                    b']' => {
                        *p += 1;
                        return Ok(J::Arr(a));
                    }
                    _ => return Err("arr sep".into()),
                }
            }
        }
        b'"' => {
            *p += 1;
            let mut s = String::new();
            loop {
                if *p >= b.len() {
                    return Err("eof in string".into());
                }
                match b[*p] {
                    b'"' => {
                        *p += 1;
                        return Ok(J::Str(s));
                    }
                    b'\\' => {
                        *p += 1;
                        match b[*p] {
                            b'n' => s.push('\n'),
                            b'r' => s.push('\r'),
                            b't' => s.push('\t'),
                            b'u' => {
                                let h = std::str::from_utf8(&b[*p + 1..*p + 5]).map_err(|e| e.to_string())?;
                                let c = u32::from_str_radix(h, 16).map_err(|e| e.to_string())?;
                                s.push(char::from_u32(c).unwrap_or('?'));
                                *p += 4;
                            }
                            c => s.push(c as char),
                        }
                        *p += 1;
                    }
                    _ => {
                        // utf-8 passthrough
                        let start = *p;
                        *p += 1;
                        while *p < b.len() && (b[*p] & 0xC0) == 0x80 {
                            *p += 1;
                        }
                        s.push_str(std::str::from_utf8(&b[start..*p]).map_err(|e| e.to_string())?);
                    }
                }
            }
        }
        b't' => {
            *p += 4;
            Ok(J::Bool(true))
        }
        b'f' => {
            *p += 5;
            Ok(J::Bool(false))
        }
        b'n' => {
            *p += 4;
            Ok(J::Null)
        }
        _ => {
            let start = *p;
            while *p < b.len() && (b[*p] == b'-' || b[*p] == b'+' || b[*p] == b'.' || b[*p] == b'e' || b[*p] == b'E' || b[*p].is_ascii_digit()) {
                *p += 1;
            }
            let t = std::str::from_utf8(&b[start..*p]).unwrap();
            if let Ok(i) = t.parse::<i128>() {
                Ok(J::Int(i))
            } else {
                t.parse::<f64>().map(J::Num).map_err(|e| format!("{e}: {t:?}"))
            }
        }
    }
}
