//! C15 — engine primitives and tables implement their mathematical contracts.
//! Whole-domain enumeration where the domain is finite and small enough (all table entries, all
//! 2^32 (symbol, log_m) pairs, all 65536 unit erasure vectors) and small-scope enumeration of
//! transform shapes, against gfref definitions.
use crate::core::*;
use crate::json::J;
use crate::kv::*;
use crate::prim::*;
use crate::report::*;
use crate::with_engine;
use reed_solomon_simd::engine::tables;

type V = (String, String);

// ---------------------------------------------------------------- tables

fn check_tables(f: &gfref::Field, rep: &mut Report) {
    let mut n = 0u64;
    let mut bad = |name: &str, idx: String, want: String, got: String, rep: &mut Report| {
        rep.violation(Violation { key: format!("table-{name}-{idx}"), case: format!("what=table name={name}"), expected: format!("{name}[{idx}] == {want}"), observed: got });
    };
    let el = &*tables::EXP_LOG;
    // exp[65535] and log[0] are conventions (the logarithm of 0 is undefined), not definitions: not compared
    for l in 0..65535usize {
        n += 1;
        if el.exp[l] != f.exp[l] {
            bad("exp", l.to_string(), format!("{:#06x}", f.exp[l]), format!("{:#06x}", el.exp[l]), rep);
            break;
        }
    }
    for x in 1..65536usize {
        n += 1;
        if el.log[x] != f.log[x] {
            bad("log", x.to_string(), f.log[x].to_string(), el.log[x].to_string(), rep);
            break;
        }
    }
    let skew = &*tables::SKEW;
    let sk: Vec<(u16, u16)> = par_for(65535, 512, |i| (skew[i], f.skew_ref(i)));
    for (i, (got, want)) in sk.iter().enumerate() {
        n += 1;
        if got != want {
            bad("skew", i.to_string(), want.to_string(), got.to_string(), rep);
            break;
        }
    }
    // log-Walsh by the O(n^2) definition of the Walsh-Hadamard transform, modulo 65535
    let lw = &*tables::LOG_WALSH;
    let wh: Vec<(u16, u32)> = par_for(65536, 64, |j| {
        let mut acc: i64 = 0;
        for x in 1..65536usize {
            let l = f.log[x] as i64;
            if (j & x).count_ones() & 1 == 0 {
                acc += l;
            } else {
                acc -= l;
            }
        }
        (lw[j], acc.rem_euclid(65535) as u32)
    });
    for (j, (got, want)) in wh.iter().enumerate() {
        n += 1;
        if *got as u32 % 65535 != *want {
            bad("log_walsh", j.to_string(), format!("{want} (mod 65535)"), got.to_string(), rep);
            break;
        }
    }
    let m16 = &*tables::MUL16;
    let m128 = &*tables::MUL128;
    let res: Vec<Option<(String, String, String, String)>> = par_for(65536, 256, |log_m| {
        for nib in 0..4 {
            for i in 0..16usize {
                let want = f.mul_exp((i << (4 * nib)) as u16, log_m as u16);
                if m16[log_m][nib][i] != want {
                    return Some(("mul16".into(), format!("{log_m}][{nib}][{i}"), format!("{want:#06x}"), format!("{:#06x}", m16[log_m][nib][i])));
                }
                let lo = m128[log_m].lo[nib].to_le_bytes()[i];
                let hi = m128[log_m].hi[nib].to_le_bytes()[i];
                if lo != want as u8 || hi != (want >> 8) as u8 {
                    return Some(("mul128".into(), format!("{log_m}].lo/hi[{nib}] byte {i}"), format!("{want:#06x}"), format!("{:#04x}{:02x}", hi, lo)));
                }
            }
        }
        None
    });
    n += 65536 * 64 * 2;
    for r in res.into_iter().flatten() {
        bad(&r.0, r.1, r.2, r.3, rep);
        break;
    }
    rep.extra("table_entries_checked", J::i(n));
    rep.evaluations += n;
    rep.states += n;
}

// ---------------------------------------------------------------- mul

/// all symbols for one (engine, log_m)
fn check_mul_row(f: &gfref::Field, eng: &str, log_m: u16) -> Result<u64, V> {
    let mut buf = vec![[0u8; 64]; 2048];
    for sym in 0..65536usize {
        let (b, s) = (sym / 32, sym % 32);
        buf[b][s] = sym as u8;
        buf[b][32 + s] = (sym >> 8) as u8;
    }
    if let Err(p) = guard(|| with_engine!(eng, E => mul_blocks::<E>(&mut buf, log_m))) {
        return Err(("no panic".into(), format!("PANIC: {p}")));
    }
    for sym in 0..65536usize {
        let (b, s) = (sym / 32, sym % 32);
        let got = buf[b][s] as u16 | (buf[b][32 + s] as u16) << 8;
        let want = f.mul_exp(sym as u16, log_m);
        if got != want {
            return Err((format!("mul: {sym:#06x} * g^{log_m} == {want:#06x}"), format!("{got:#06x}")));
        }
    }
    Ok(65536)
}

// ---------------------------------------------------------------- transforms

/// reference basis row: X_j(x) for j < size
fn basis_row(f: &gfref::Field, size: usize, x: u16) -> Vec<u16> {
    let bits = size.trailing_zeros() as usize;
    let sh: Vec<u16> = (0..bits).map(|b| f.shat(b, x)).collect();
    let mut basis = vec![f.one(); size];
    for j in 1..size {
        let b = j.trailing_zeros() as usize;
        basis[j] = f.mul(basis[j & (j - 1)], sh[b]);
    }
    basis
}

fn dot(f: &gfref::Field, a: &[u16], b: &[u16]) -> u16 {
    let mut v = 0u16;
    for (x, y) in a.iter().zip(b) {
        v ^= f.mul(*x, *y);
    }
    v
}

const SLOTS: [(usize, usize); 2] = [(0, 0), (usize::MAX, 17)]; // (block, slot); block MAX = last block

/// one (engine, n, delta) : every truncated_size in `truncs`, reference on the points `points`
fn check_transform_family(f: &gfref::Field, eng: &str, n: u32, delta: usize, len64: usize, truncs: &[usize], points: &[usize], seed: u64) -> Result<u64, V> {
    let size = 1usize << n;
    let pos = 1usize;
    let count = size + 2;
    let rows: Vec<Vec<u16>> = points.iter().map(|&i| basis_row(f, size, (delta + i) as u16)).collect();
    let mut rng = Rng::new(seed ^ ((n as u64) << 32) ^ delta as u64);
    let mut checks = 0u64;
    // ---- fft: arbitrary coefficients, first trunc outputs
    let input = Buf::random(count, len64, &mut rng);
    // further inputs for small sizes: all-but-one shard zero, all shards identical (data-dependent short cuts)
    let mut more_inputs: Vec<Buf> = Vec::new();
    if n <= 6 && n >= 1 {
        let js: Vec<usize> = if size <= 8 { (0..size).collect() } else { vec![0, 1, size / 2 - 1, size / 2, size - 2, size - 1] };
        for j in js {
            let mut b = Buf::random(count, len64, &mut rng);
            b.zero_shards(pos, pos + j);
            b.zero_shards(pos + j + 1, pos + size);
            more_inputs.push(b);
        }
        let mut b = Buf::random(count, len64, &mut rng);
        for j in 1..size {
            let first = b.shard(pos).to_vec();
            b.shard_mut(pos + j).copy_from_slice(&first);
        }
        more_inputs.push(b);
    }
    let mut slots: Vec<(usize, usize)> = SLOTS.iter().map(|(b, s)| (if *b == usize::MAX { len64 - 1 } else { *b }, *s)).collect();
    if len64 > 2 {
        // long shards: blocks in the middle and on both sides of the 4 KiB / 8 KiB marks as well
        for b in [len64 * 2 / 3, 63, 64, 127, 128] {
            if b < len64 - 1 && b > 0 {
                slots.push((b, (b * 7) % 32));
            }
        }
    }
    let all_truncs = truncs;
    for (ii, input) in std::iter::once(&input).chain(more_inputs.iter()).enumerate() {
    // the extra inputs run on a thinned set of truncated sizes
    let truncs: Vec<usize> = if ii == 0 { all_truncs.to_vec() } else { all_truncs.iter().copied().filter(|t| *t == size || *t == size / 2 + 1 || *t == 1 || size <= 8).collect() };
    let coeffs: Vec<Vec<u16>> = slots.iter().map(|(b, s)| (0..size).map(|j| input.sym(pos + j, *b, *s)).collect()).collect();
    let want: Vec<Vec<u16>> = coeffs.iter().map(|c| rows.iter().map(|row| dot(f, c, row)).collect()).collect();
    for &trunc in truncs.iter() {
        let mut buf = input.clone();
        if let Err(p) = guard(|| with_engine!(eng, E => transform::<E>(Dir::Fft, &mut buf, pos, size, trunc, delta))) {
            return Err(("no panic".into(), format!("PANIC: {p}")));
        }
        for (si, (b, s)) in slots.iter().enumerate() {
            for (pi, &i) in points.iter().enumerate() {
                if i < trunc {
                    checks += 1;
                    let got = buf.sym(pos + i, *b, *s);
                    if got != want[si][pi] {
                        return Err((format!("fft(size=2^{n}, truncated_size={trunc}, skew_delta={delta}) output {i} (block {b} slot {s}) == polynomial value at point {} = {:#06x}", delta + i, want[si][pi]), format!("{got:#06x}")));
                    }
                }
            }
        }
        if buf.shard(0) != input.shard(0) || buf.shard(count - 1) != input.shard(count - 1) {
            return Err((format!("fft(size=2^{n}, truncated_size={trunc}) leaves shards outside [pos,pos+size) alone"), "guard shard modified".into()));
        }
    }
    }
    // ---- ifft: values with zero tail -> coefficients that evaluate back to the values
    for &trunc in truncs {
        let mut buf = Buf::random(count, len64, &mut rng);
        buf.zero_shards(pos + trunc, pos + size);
        let values = buf.clone();
        if let Err(p) = guard(|| with_engine!(eng, E => transform::<E>(Dir::Ifft, &mut buf, pos, size, trunc, delta))) {
            return Err(("no panic".into(), format!("PANIC: {p}")));
        }
        for (b, s) in &slots {
            let c: Vec<u16> = (0..size).map(|j| buf.sym(pos + j, *b, *s)).collect();
            for (pi, &i) in points.iter().enumerate() {
                checks += 1;
                let back = dot(f, &c, &rows[pi]);
                let v = values.sym(pos + i, *b, *s);
                if back != v {
                    return Err((format!("ifft(size=2^{n}, truncated_size={trunc}, skew_delta={delta}): coefficients evaluate at point {} to the input value {v:#06x} (block {b} slot {s})", delta + i), format!("{back:#06x}")));
                }
            }
        }
        if buf.shard(0) != values.shard(0) || buf.shard(count - 1) != values.shard(count - 1) {
            return Err((format!("ifft(size=2^{n}, truncated_size={trunc}) leaves shards outside [pos,pos+size) alone"), "guard shard modified".into()));
        }
    }
    Ok(checks)
}

// ---------------------------------------------------------------- eval_poly

fn check_eval_poly(f: &gfref::Field, eng: &str, marked: &[usize], trunc: usize, xs_stride: usize) -> Result<u64, V> {
    let out = match guard(|| with_engine!(eng, E => eval_poly_of::<E>(marked, trunc))) {
        Ok(o) => o,
        Err(p) => return Err(("no panic".into(), format!("PANIC: {p}"))),
    };
    // reference through the smaller of marked / unmarked (sum of all non-zero logs is 0 mod 65535)
    let mut is_marked = vec![false; 65536];
    for &m in marked {
        is_marked[m] = true;
    }
    let use_complement = marked.len() > 32768;
    let set: Vec<usize> = if use_complement { (0..65536).filter(|j| !is_marked[*j]).collect() } else { marked.to_vec() };
    let mut n = 0u64;
    let mut x = 0usize;
    while x < 65536 {
        let mut r = f.eval_poly_ref(&set, x);
        if use_complement {
            r = (65535 - r) % 65535;
        }
        n += 1;
        if out[x] as u32 % 65535 != r {
            return Err((format!("eval_poly(marked={}, truncated_size={trunc}) out[{x}] == {r} (mod 65535) = sum of log(x^j) over marked j != x", fmt_ranges(marked)), format!("{}", out[x])));
        }
        x += xs_stride;
    }
    Ok(n)
}

/// Large structured indicator vectors, described compactly:
///   hyp:<mask>:<v>   positions x with parity(x & mask) == v      (a hyperplane half)
///   mod:<m>:<r>      positions x with x % m == r
///   blk:<b>:<v>      positions x with (x / b) % 2 == v           (alternating aligned blocks)
///   rnd:<seed>:<p>   pseudo-random positions, density p/16
///   cpl:<a>,<b>,..   everything except the listed positions
fn structured(desc: &str) -> Vec<usize> {
    let p: Vec<&str> = desc.split(':').collect();
    match p[0] {
        "hyp" => {
            let (mask, v): (usize, u32) = (p[1].parse().unwrap(), p[2].parse().unwrap());
            (0..65536).filter(|x| (x & mask).count_ones() & 1 == v).collect()
        }
        "mod" => {
            let (m, r): (usize, usize) = (p[1].parse().unwrap(), p[2].parse().unwrap());
            (0..65536).filter(|x| x % m == r).collect()
        }
        "blk" => {
            let (b, v): (usize, usize) = (p[1].parse().unwrap(), p[2].parse().unwrap());
            (0..65536).filter(|x| (x / b) % 2 == v).collect()
        }
        "rnd" => {
            let (seed, dens): (u64, u64) = (p[1].parse().unwrap(), p[2].parse().unwrap());
            let mut rng = Rng::new(seed);
            (0..65536).filter(|_| rng.next() % 16 < dens).collect()
        }
        "cpl" => {
            let out: Vec<usize> = p[1].split(',').map(|x| x.parse().unwrap()).collect();
            (0..65536).filter(|x| !out.contains(x)).collect()
        }
        _ => panic!("structured {desc}"),
    }
}

fn structured_family(thorough: bool) -> Vec<String> {
    let mut v = Vec::new();
    // hyperplane halves: all single-bit and two-bit functionals (and a stride of the rest), both cosets
    let mut masks: Vec<usize> = (0..16).map(|b| 1usize << b).collect();
    for a in 0..16 {
        for b in a + 1..16 {
            masks.push(1 << a | 1 << b);
        }
    }
    masks.extend([0xFFFF, 0x00FF, 0xFF00, 0x5555, 0xAAAA, 0x8001, 0x7FFF, 0x1234, 0xFEDC]);
    if thorough {
        masks.extend((1..65536usize).step_by(97));
    }
    masks.sort();
    masks.dedup();
    for m in masks {
        for c in 0..2 {
            v.push(format!("hyp:{m}:{c}"));
        }
    }
    for m in [2usize, 3, 4, 5, 7, 16, 17, 255, 256, 257] {
        v.push(format!("mod:{m}:0"));
        v.push(format!("mod:{m}:{}", m - 1));
    }
    for b in [1usize, 2, 32, 64, 4096, 16384, 32768] {
        v.push(format!("blk:{b}:0"));
        v.push(format!("blk:{b}:1"));
    }
    for seed in 1..=(if thorough { 40 } else { 8 }) {
        for dens in [1u64, 8, 15] {
            v.push(format!("rnd:{seed}:{dens}"));
        }
    }
    for c in ["0", "65535", "0,65535", "1,2,3", "32768", "32767,32768", "100,200,300,40000"] {
        v.push(format!("cpl:{c}"));
    }
    v
}

fn check_eval_poly_structured(f: &gfref::Field, eng: &str, desc: &str) -> Result<u64, V> {
    let marked = structured(desc);
    let want = f.eval_poly_all(&marked);
    let end = marked.last().map(|x| x + 1).unwrap_or(0);
    let mut n = 0u64;
    for trunc in [end, 65536] {
        let out = match guard(|| with_engine!(eng, E => eval_poly_of::<E>(&marked, trunc))) {
            Ok(o) => o,
            Err(p) => return Err(("no panic".into(), format!("PANIC: {p}"))),
        };
        for x in 0..65536 {
            if out[x] as u32 % 65535 != want[x] {
                return Err((format!("eval_poly(marked = {desc} [{} positions], truncated_size={trunc}) out[{x}] == {} (mod 65535)", marked.len(), want[x]), format!("{}", out[x])));
            }
        }
        n += 65536;
        if end == 65536 {
            break;
        }
    }
    Ok(n)
}

fn decoder_vectors() -> Vec<(Vec<usize>, usize)> {
    let mut v = Vec::new();
    for k in 1..=3usize {
        for r in 1..=3usize {
            // high rate
            let chunk = pow2ceil(r);
            for mask in crate::rt::subsets_at_least_k(k, r) {
                let (og, rg) = crate::rt::split_mask(k, r, mask);
                if og.len() == k {
                    continue;
                }
                let mut m: Vec<usize> = (0..r).filter(|j| !rg.contains(j)).collect();
                m.extend(r..chunk);
                m.extend((0..k).filter(|i| !og.contains(i)).map(|i| chunk + i));
                m.sort();
                v.push((m, chunk + k));
                // low rate
                let chunk = pow2ceil(k);
                let mut m: Vec<usize> = (0..k).filter(|i| !og.contains(i)).collect();
                m.extend((0..r).filter(|j| !rg.contains(j)).map(|j| chunk + j));
                m.extend(chunk + r..65536);
                m.sort();
                v.push((m, 65536));
            }
        }
    }
    v.sort();
    v.dedup();
    v
}

// ---------------------------------------------------------------- driver

fn run_case(f: &gfref::Field, kv: &Kv) -> Result<u64, V> {
    match kv.str("what") {
        "mul" => check_mul_row(f, kv.str("eng"), kv.usize("log_m") as u16),
        "transform" => check_transform_family(f, kv.str("eng"), kv.usize("n") as u32, kv.usize("delta"), kv.usize("len64"), &parse_ranges(kv.str("truncs")), &parse_ranges(kv.str("points")), kv.u64("seed")),
        "eval_poly" => check_eval_poly(f, kv.str("eng"), &parse_ranges(kv.str("marked")), kv.usize("trunc"), kv.usize("stride")),
        "eval_poly_structured" => check_eval_poly_structured(f, kv.str("eng"), kv.str("desc")),
        "table" => {
            let mut rep = Report::new();
            check_tables(f, &mut rep);
            match rep.violations.first() {
                None => Ok(1),
                Some(v) => Err((v.expected.clone(), v.observed.clone())),
            }
        }
        w => panic!("what {w}"),
    }
}

pub fn replay(_ctx: &Ctx, case: &str) -> Result<(), String> {
    let kv = Kv::parse(case)?;
    run_case(&gfref::Field::new(), &kv).map(|_| ()).map_err(|(e, o)| format!("expected {e}; observed {o}"))
}

pub fn run(ctx: &Ctx, rep: &mut Report) {
    let f = gfref::Field::new();
    f.self_check(false);
    f.self_check_code();
    let seed = ctx.seed;
    rep.rule = "tables: every entry of exp, log, skew, log-Walsh (O(n^2) definition), Mul16, Mul128; mul: every (symbol, log_m) pair for every engine; fft/ifft: for size 2^n every chunk-aligned skew offset (thinned above the bound) and every truncated_size, reference = evaluation of the LCH-basis polynomial at the points skew_delta+i by gfref; eval_poly: unit vectors, pairs, prefixes and every erasure vector the decoders of (k,r)<=3 build, at every truncated_size class, against sum of logs; non-trivial = every case except truncated_size 0; distinct by argument tuple".into();
    rep.assume("gfref derives exp/log, subspace polynomials and the LCH basis from the field polynomial 0x1002D and the Cantor basis only");
    check_tables(&f, rep);

    let mut cases: Vec<Kv> = Vec::new();
    // mul
    let engs = engines_all();
    for &eng in &engs {
        let slow = eng == "naive" || eng == "neonemu";
        for log_m in 0..65536usize {
            if !ctx.thorough() && slow && log_m % 16 != 5 && log_m > 255 && log_m < 65280 {
                continue;
            }
            cases.push(Kv::new().with("what", "mul").with("eng", eng).with("log_m", log_m));
        }
    }
    rep.bound("mul", J::s(if ctx.thorough() { "all 2^32 (symbol, log_m) pairs, every engine" } else { "all 2^32 pairs for nosimd/ssse3/avx2/default; naive and neonemu: all symbols x (log_m < 256, >= 65280 and every 16th)" }));
    // transforms
    let nmax = if ctx.thorough() { 10 } else { 6 };
    for &eng in &engs {
        for n in 0..=nmax {
            let size = 1usize << n;
            let all_deltas: Vec<usize> = (0..65536 / size).map(|c| c * size).collect();
            let full = ctx.thorough() && n <= 8 && (eng == "nosimd" || eng == "avx2") || ctx.thorough() && n <= 6;
            let deltas: Vec<usize> = if full {
                all_deltas.clone()
            } else {
                let mut d: Vec<usize> = all_deltas.iter().copied().take(4).collect();
                d.extend(all_deltas.iter().rev().take(2));
                d.sort();
                d.dedup();
                d
            };
            let truncs: Vec<usize> = (0..=size).collect();
            let points: Vec<usize> = (0..size).collect();
            for (di, &delta) in deltas.iter().enumerate() {
                // all truncated sizes, in groups to spread the work
                for chunk in truncs.chunks(if n >= 9 { 16 } else { 64 }) {
                    cases.push(Kv::new().with("what", "transform").with("eng", eng).with("n", n).with("delta", delta).with("len64", 1 + di % 2).with("truncs", fmt_ranges(chunk)).with("points", fmt_ranges(&points)).with("seed", seed));
                }
            }
        }
    }
    rep.bound("transform", J::s(format!("n <= {nmax}, every truncated_size, every output point; skew offsets: {}", if ctx.thorough() { "all chunk-aligned for n<=8 on nosimd/avx2 and n<=6 on the others, else first 4 and last 2" } else { "first 4 and last 2 chunk-aligned" })));
    // every size class up to the whole field, every engine (reference on fixed output points)
    for &eng in &engs {
        for n in (nmax + 1)..=16 {
            let size = 1usize << n;
            let mut pts: Vec<usize> = (0..8).map(|i| (i * 2654435761usize + n as usize) % size).collect();
            pts.extend([0, 1, size - 1, size / 2]);
            pts.sort();
            pts.dedup();
            let truncs: Vec<usize> = vec![1, 3, size / 2 + 1, size - 1, size];
            let mut deltas = vec![0usize, 65536 - size];
            deltas.dedup();
            for delta in deltas {
                cases.push(Kv::new().with("what", "transform").with("eng", eng).with("n", n).with("delta", delta).with("len64", 1).with("truncs", fmt_list(&truncs)).with("points", fmt_list(&pts)).with("seed", seed));
            }
        }
    }
    rep.bound("transform_size_classes", J::s(format!("every n in {}..=16, every engine, skew offsets {{0, 65536-size}}, truncated sizes {{1, 3, size/2+1, size-1, size}}, reference on 12 fixed output points", nmax + 1)));
    // long shards (above 4 KiB, 8 KiB, 16 KiB; block counts that are no multiple of 64)
    for &eng in &engs {
        for n in [2u32, 3, 4] {
            let size = 1usize << n;
            for (li, len64) in [65usize, 130, 257].into_iter().enumerate() {
                let truncs: Vec<usize> = (0..=size).collect();
                let points: Vec<usize> = (0..size).collect();
                for delta in [size * li, 65536 - size] {
                    cases.push(Kv::new().with("what", "transform").with("eng", eng).with("n", n).with("delta", delta).with("len64", len64).with("truncs", fmt_ranges(&truncs)).with("points", fmt_ranges(&points)).with("seed", seed));
                }
            }
        }
    }
    rep.bound("transform_long_shards", J::s("n = 2, 3, 4 with shards of 65, 130 and 257 blocks: every truncated_size and output point, symbols checked in the first, last and five inner blocks (both sides of the 4 KiB and 8 KiB marks)"));
    if ctx.thorough() {
        for &eng in &engs {
            for (n, npts) in [(12u32, 64usize), (16, 24)] {
                let size = 1usize << n;
                let mut pts: Vec<usize> = (0..npts).map(|i| (i * 2654435761usize) % size).collect();
                pts.extend([0, 1, size - 1, size / 2]);
                pts.sort();
                pts.dedup();
                let truncs: Vec<usize> = vec![1, 2, 3, 5, 64, 65, size / 2 - 1, size / 2, size / 2 + 1, size - 1, size];
                for t in truncs.chunks(3) {
                    cases.push(Kv::new().with("what", "transform").with("eng", eng).with("n", n).with("delta", 0).with("len64", 1).with("truncs", fmt_list(t)).with("points", fmt_list(&pts)).with("seed", seed));
                }
            }
        }
        for &eng in &engines_fast() {
            for n in [11u32, 12] {
                let size = 1usize << n;
                let mut pts: Vec<usize> = (0..64).map(|i| (i * 2654435761usize) % size).collect();
                pts.extend([0, 1, 2, 3, size - 2, size - 1, size / 2 - 1, size / 2, size / 2 + 1]);
                pts.sort();
                pts.dedup();
                let truncs: Vec<usize> = (0..=size).collect();
                for delta in [0usize, size, 65536 - size] {
                    for chunk in truncs.chunks(64) {
                        cases.push(Kv::new().with("what", "transform").with("eng", eng).with("n", n).with("delta", delta).with("len64", 1).with("truncs", fmt_ranges(chunk)).with("points", fmt_list(&pts)).with("seed", seed));
                    }
                }
            }
        }
        rep.bound("transform_n11_12", J::s("n = 11, 12 on nosimd/avx2: every truncated_size at skew offsets {0, size, 65536-size}, reference on 73 fixed output points"));
        rep.bound("transform_large", J::s("n = 12 and 16 at skew offset 0, 11 truncated sizes, reference on 64 / 24 fixed output points plus the ends"));
    }
    // eval_poly
    let mut vecs = crate::c03::eval_poly_families(ctx.thorough());
    vecs.extend(decoder_vectors());
    for (marked, trunc) in &vecs {
        for eng in ["nosimd", "avx2", "ssse3", "neonemu", "default"] {
            if !engs.contains(&eng) {
                continue;
            }
            let light = marked.len() <= 2 || marked.len() >= 65530;
            if (eng != "nosimd" && eng != "avx2") && !light {
                continue;
            }
            cases.push(Kv::new().with("what", "eval_poly").with("eng", eng).with("marked", fmt_ranges(marked)).with("trunc", trunc).with("stride", if light || marked.len() < 64 { 1 } else { 7 }));
        }
    }
    let units: Vec<usize> = if ctx.thorough() { (0..65536).collect() } else { (0..65536).step_by(16).chain([1, 2, 3, 65534, 65535]).collect() };
    for &u in &units {
        let eng = if u % 2 == 0 && engs.contains(&"avx2") { "avx2" } else { "nosimd" };
        cases.push(Kv::new().with("what", "eval_poly").with("eng", eng).with("marked", u).with("trunc", if u % 3 == 0 { 65536 } else { u + 1 }).with("stride", 1));
    }
    let n_conv = f.self_check_conv();
    rep.extra("oracle_convolution_reference_checks", J::i(n_conv));
    let fam = structured_family(ctx.thorough());
    for (i, d) in fam.iter().enumerate() {
        let eng = if i % 2 == 0 && engs.contains(&"avx2") { "avx2" } else { "nosimd" };
        cases.push(Kv::new().with("what", "eval_poly_structured").with("eng", eng).with("desc", d));
        if ctx.thorough() && i % 7 == 0 {
            cases.push(Kv::new().with("what", "eval_poly_structured").with("eng", "default").with("desc", d));
        }
    }
    rep.bound("eval_poly_structured", J::s(format!("{} large structured indicator vectors (hyperplane halves for all 1- and 2-bit functionals and more, residue classes, alternating blocks, pseudo-random densities 1/16..15/16, complements of small sets), every output position, against the exact XOR-convolution reference", fam.len())));
    rep.bound("eval_poly", J::s(format!("{} indicator vectors x truncated_size classes (families of C03 + every decoder-built vector for k,r<=3), {} unit vectors", vecs.len(), units.len())));

    let results: Vec<Result<u64, V>> = par_for(cases.len(), 4, |i| match guard(|| run_case(&f, &cases[i])) {
        Ok(r) => r,
        Err(p) => Err(("no panic".into(), format!("PANIC: {p}"))),
    });
    let mut per: std::collections::BTreeMap<String, u64> = Default::default();
    for (kv, res) in cases.iter().zip(results) {
        rep.states += 1;
        rep.transitions += 1;
        rep.traces += 1;
        rep.distinct += 1;
        match res {
            Ok(n) => {
                rep.evaluations += n;
                *per.entry(kv.str("what").to_string()).or_default() += n;
            }
            Err((exp, obs)) => rep.violation(Violation {
                key: format!("{}-{}-{}", kv.str("what"), kv.str("eng"), match kv.str("what") {
                    "mul" => format!("m{}", kv.str("log_m")),
                    "transform" => format!("n{}-d{}-t{}", kv.str("n"), kv.str("delta"), kv.str("truncs")),
                    "eval_poly_structured" => kv.str("desc").to_string(),
                    _ => format!("{}-t{}", kv.str("marked"), kv.str("trunc")),
                }),
                case: kv.dump(),
                expected: exp,
                observed: obs,
            }),
        }
    }
    for (k, v) in per {
        rep.extra(&format!("checks_{k}"), J::i(v));
    }
    for i in [0, cases.len() / 3, cases.len() * 2 / 3, cases.len() - 1] {
        rep.sample(cases[i].dump());
    }
}
