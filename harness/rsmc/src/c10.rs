//! C10 — one-shot encode()/decode() equal the streaming API, errors included.
//! Exhaustive enumeration of argument tuples (list shapes over a small alphabet of indexes and
//! shard classes); oracle = the equivalent streaming sequence on ReedSolomonEncoder/Decoder plus
//! the set of truthful errors computed from the input alone.
use std::collections::{BTreeMap, BTreeSet};

use crate::core::*;
use crate::json::J;
use crate::kv::*;
use crate::report::*;
use reed_solomon_simd::{Error, ReedSolomonDecoder, ReedSolomonEncoder};

type V = (String, String);

/// shard classes: e = empty, a = 2 bytes, o = 3 bytes (odd), b = 64 bytes, c = 66 bytes
const CLASSES: [(char, usize); 5] = [('e', 0), ('a', 2), ('o', 3), ('b', 64), ('c', 66)];
fn class_len(c: char) -> usize {
    CLASSES.iter().find(|(n, _)| *n == c).unwrap().1
}

struct Data {
    /// per size: (originals, recovery) consistent sets for (k, r)
    sets: BTreeMap<usize, (Vec<Vec<u8>>, Vec<Vec<u8>>)>,
}
impl Data {
    fn new(refm: &RefModel, k: usize, r: usize, seed: u64) -> Data {
        let mut sets = BTreeMap::new();
        if spec_supports(Kind::Rs, k, r) && k + r <= 700 {
            let sizes: &[usize] = if k <= 8 && r <= 8 { &[2, 64, 66] } else { &[2] };
            for &b in sizes {
                let o = data_dense(k, b, seed ^ 0xC10);
                let rec = refm.encode(spec_high_selected(k, r), k, r, &o);
                sets.insert(b, (o, rec));
            }
        }
        Data { sets }
    }
    fn orig(&self, idx: usize, len: usize) -> Vec<u8> {
        match self.sets.get(&len) {
            Some((o, _)) if idx < o.len() => o[idx].clone(),
            _ => vec![0x3Cu8; len],
        }
    }
    fn rec(&self, idx: usize, len: usize) -> Vec<u8> {
        match self.sets.get(&len) {
            Some((_, r)) if idx < r.len() => r[idx].clone(),
            _ => vec![0xC3u8; len],
        }
    }
}

fn show<T: std::fmt::Debug>(r: &Result<T, Error>) -> String {
    match r {
        Ok(v) => {
            let s = format!("{v:?}");
            format!("Ok({})", if s.len() > 160 { format!("{}..", &s[..160]) } else { s })
        }
        Err(e) => format!("Err({e:?})"),
    }
}

/// Iterator adaptor that hands the same items to the one-shot functions under a different (still truthful)
/// `size_hint`: mode 0 = the inner iterator's exact hint, 1 = (0, Some(upper + 1)) as a `filter` over one more candidate would give,
/// 2 = (0, None). The result of encode()/decode() must not depend on it.
struct Loose<I> {
    inner: I,
    mode: u8,
}
impl<I: Iterator> Iterator for Loose<I> {
    type Item = I::Item;
    fn next(&mut self) -> Option<I::Item> {
        self.inner.next()
    }
    fn size_hint(&self) -> (usize, Option<usize>) {
        let (lo, hi) = self.inner.size_hint();
        match self.mode {
            0 => (lo, hi),
            1 => (0, hi.map(|h| h + 1)),
            _ => (0, None),
        }
    }
}
const HINT_MODES: [u8; 3] = [0, 1, 2];

// ---------------------------------------------------------------- encode

fn check_encode(data: &Data, k: usize, r: usize, lens: &[usize]) -> Result<(), V> {
    let originals: Vec<Vec<u8>> = lens.iter().enumerate().map(|(i, l)| data.orig(i, *l)).collect();
    // streaming equivalent
    let stream = guard(|| -> Result<Vec<Vec<u8>>, Error> {
        if !ReedSolomonEncoder::supports(k, r) {
            return Err(Error::UnsupportedShardCount { original_count: k, recovery_count: r });
        }
        let Some(first) = originals.first() else { return Err(Error::TooFewOriginalShards { original_count: k, original_received_count: 0 }) };
        let mut e = ReedSolomonEncoder::new(k, r, first.len())?;
        for o in &originals {
            e.add_original_shard(o)?;
        }
        let res = e.encode()?;
        Ok(res.recovery_iter().map(|s| s.to_vec()).collect())
    })
    .map_err(|p| ("streaming oracle does not panic".to_string(), format!("PANIC: {p}")))?;
    // truthful errors from the input alone
    let mut truthful: Vec<Error> = Vec::new();
    if !spec_supports(Kind::Rs, k, r) {
        truthful.push(Error::UnsupportedShardCount { original_count: k, recovery_count: r });
    }
    let n = lens.len();
    if n < k {
        truthful.push(Error::TooFewOriginalShards { original_count: k, original_received_count: n });
    }
    if n > k {
        truthful.push(Error::TooManyOriginalShards { original_count: k });
    }
    if let Some(&f) = lens.first() {
        if f == 0 || f % 2 != 0 {
            truthful.push(Error::InvalidShardSize { shard_bytes: f });
        }
        for &l in lens {
            if l != f {
                truthful.push(Error::DifferentShardSize { shard_bytes: f, got: l });
            }
        }
    }
    for mode in HINT_MODES {
    let one = guard(|| reed_solomon_simd::encode(k, r, Loose { inner: originals.iter(), mode })).map_err(|p| ("no panic".to_string(), format!("PANIC: {p}")))?;
    let desc = format!("encode({k},{r},lens=[{}]{})", fmt_lens(lens), ["", ", iterator with a loose size_hint upper bound", ", iterator with size_hint (0, None)"][mode as usize]);
    let verdict: Result<(), V> = match (&stream, &one) {
        (Ok(a), Ok(b)) => {
            if a != b {
                return Err((format!("{desc} == streaming result {}", show(&stream)), show(&one)));
            }
            if !truthful.is_empty() {
                return Err((format!("{desc} -> Err (input violates {truthful:?})"), show(&one)));
            }
            Ok(())
        }
        (_, Ok(_)) => Err((format!("{desc} -> {} like the streaming sequence", show(&stream)), show(&one))),
        (_, Err(e)) => {
            if truthful.contains(e) {
                Ok(())
            } else if truthful.is_empty() {
                Err((format!("{desc} -> Ok (no precondition violated)"), show(&one)))
            } else {
                Err((format!("{desc} -> Err naming a violated precondition, one of {truthful:?}"), show(&one)))
            }
        }
    };
    verdict?;
    }
    Ok(())
}

// ---------------------------------------------------------------- decode

fn check_decode(data: &Data, k: usize, r: usize, ol: &[(usize, usize)], rl: &[(usize, usize)]) -> Result<(), V> {
    let originals: Vec<(usize, Vec<u8>)> = ol.iter().map(|(i, l)| (*i, data.orig(*i, *l))).collect();
    let recovery: Vec<(usize, Vec<u8>)> = rl.iter().map(|(i, l)| (*i, data.rec(*i, *l))).collect();
    let inferred = rl.first().map(|x| x.1).or(ol.first().map(|x| x.1));
    let stream = guard(|| -> Result<BTreeMap<usize, Vec<u8>>, Error> {
        if !ReedSolomonDecoder::supports(k, r) {
            return Err(Error::UnsupportedShardCount { original_count: k, recovery_count: r });
        }
        let Some(bytes) = inferred else { return Err(Error::NotEnoughShards { original_count: k, original_received_count: 0, recovery_received_count: 0 }) };
        let mut d = ReedSolomonDecoder::new(k, r, bytes)?;
        for (i, s) in &originals {
            d.add_original_shard(*i, s)?;
        }
        for (i, s) in &recovery {
            d.add_recovery_shard(*i, s)?;
        }
        let res = d.decode()?;
        Ok(res.restored_original_iter().map(|(i, s)| (i, s.to_vec())).collect())
    })
    .map_err(|p| ("streaming oracle does not panic".to_string(), format!("PANIC: {p}")))?;
    // truthful errors
    let mut truthful: Vec<Error> = Vec::new();
    if !spec_supports(Kind::Rs, k, r) {
        truthful.push(Error::UnsupportedShardCount { original_count: k, recovery_count: r });
    }
    if let Some(f) = inferred {
        if f == 0 || f % 2 != 0 {
            truthful.push(Error::InvalidShardSize { shard_bytes: f });
        }
        for (_, l) in ol.iter().chain(rl.iter()) {
            if *l != f {
                truthful.push(Error::DifferentShardSize { shard_bytes: f, got: *l });
            }
        }
    }
    let mut seen = BTreeSet::new();
    for (i, _) in ol {
        if *i >= k {
            truthful.push(Error::InvalidOriginalShardIndex { original_count: k, index: *i });
        } else if !seen.insert(*i) {
            truthful.push(Error::DuplicateOriginalShardIndex { index: *i });
        }
    }
    let distinct_o = seen.len();
    let mut seen = BTreeSet::new();
    for (j, _) in rl {
        if *j >= r {
            truthful.push(Error::InvalidRecoveryShardIndex { recovery_count: r, index: *j });
        } else if !seen.insert(*j) {
            truthful.push(Error::DuplicateRecoveryShardIndex { index: *j });
        }
    }
    let distinct_r = seen.len();
    if ol.len() + rl.len() < k {
        truthful.push(Error::NotEnoughShards { original_count: k, original_received_count: ol.len(), recovery_received_count: rl.len() });
    }
    if distinct_o + distinct_r < k {
        truthful.push(Error::NotEnoughShards { original_count: k, original_received_count: distinct_o, recovery_received_count: distinct_r });
    }
    for mode in HINT_MODES {
    let one = guard(|| reed_solomon_simd::decode(k, r, Loose { inner: originals.iter().map(|(i, s)| (*i, s.as_slice())), mode }, Loose { inner: recovery.iter().map(|(i, s)| (*i, s.as_slice())), mode })).map_err(|p| ("no panic".to_string(), format!("PANIC: {p}")))?;
    let one: Result<BTreeMap<usize, Vec<u8>>, Error> = one.map(|m| m.into_iter().collect());
    let desc = format!("decode({k},{r},orig=[{}],rec=[{}]) (index:bytes){}", fmt_items(ol), fmt_items(rl), ["", ", iterators with a loose size_hint upper bound", ", iterators with size_hint (0, None)"][mode as usize]);
    let verdict: Result<(), V> = match (&stream, &one) {
        (Ok(a), Ok(b)) => {
            if a != b {
                return Err((format!("{desc} == streaming result {}", show(&stream)), show(&one)));
            }
            if !truthful.is_empty() {
                return Err((format!("{desc} -> Err (input violates {truthful:?})"), show(&one)));
            }
            // tie to the truth: restored == missing originals
            if let Some((o, _)) = inferred.and_then(|b| data.sets.get(&b)) {
                let given: BTreeSet<usize> = ol.iter().map(|x| x.0).collect();
                let want: BTreeMap<usize, Vec<u8>> = (0..k).filter(|i| !given.contains(i)).map(|i| (i, o[i].clone())).collect();
                if &want != b {
                    return Err((format!("{desc} restores exactly the missing originals"), show(&one)));
                }
            }
            Ok(())
        }
        (_, Ok(_)) => {
            if truthful.is_empty() {
                Err((format!("{desc} -> {} like the streaming sequence", show(&stream)), show(&one)))
            } else {
                Err((format!("{desc} -> Err (input violates {truthful:?}); streaming gives {}", show(&stream)), show(&one)))
            }
        }
        (_, Err(e)) => {
            if truthful.contains(e) {
                Ok(())
            } else if truthful.is_empty() {
                Err((format!("{desc} -> Ok (no precondition violated)"), show(&one)))
            } else {
                Err((format!("{desc} -> Err naming a violated precondition, one of {truthful:?}"), show(&one)))
            }
        }
    };
    verdict?;
    }
    Ok(())
}

// ---------------------------------------------------------------- descriptors

fn fmt_items(v: &[(usize, usize)]) -> String {
    if v.is_empty() {
        return "-".into();
    }
    // runs of consecutive indexes with one length are written a..b:len (long lists of the big count pairs)
    let mut out: Vec<String> = Vec::new();
    let mut i = 0;
    while i < v.len() {
        let mut j = i;
        while j + 1 < v.len() && v[j + 1].1 == v[i].1 && v[j].0 != usize::MAX && v[j + 1].0 == v[j].0 + 1 {
            j += 1;
        }
        if j - i >= 4 {
            out.push(format!("{}..{}:{}", v[i].0, v[j].0 + 1, v[i].1));
        } else {
            for x in &v[i..=j] {
                out.push(format!("{}:{}", fmt_usize(x.0), x.1));
            }
        }
        i = j + 1;
    }
    out.join(",")
}
fn parse_items(s: &str) -> Vec<(usize, usize)> {
    if s == "-" {
        return vec![];
    }
    let mut out = Vec::new();
    for p in s.split(',') {
        let (a, b) = p.split_once(':').unwrap();
        let len: usize = b.parse().unwrap();
        if let Some((lo, hi)) = a.split_once("..") {
            for i in lo.parse::<usize>().unwrap()..hi.parse::<usize>().unwrap() {
                out.push((i, len));
            }
        } else {
            out.push((parse_usize(a), len));
        }
    }
    out
}
fn fmt_lens(l: &[usize]) -> String {
    if l.len() > 8 && l.iter().all(|x| *x == l[0]) {
        format!("{}x{}", l[0], l.len())
    } else {
        fmt_list(l)
    }
}
fn parse_lens(s: &str) -> Vec<usize> {
    if let Some((a, n)) = s.split_once('x') {
        vec![a.parse().unwrap(); n.parse().unwrap()]
    } else if s == "-" || s.is_empty() {
        vec![]
    } else {
        s.split(',').map(parse_usize).collect()
    }
}

/// one call described as a tuple: encode(lens) or decode(orig, rec)
#[derive(Clone, Debug)]
enum Call {
    Enc(Vec<usize>),
    Dec(Vec<(usize, usize)>, Vec<(usize, usize)>),
}
impl Call {
    fn dump(&self) -> String {
        match self {
            Call::Enc(l) => format!("enc/{}", fmt_list(l)),
            Call::Dec(o, r) => format!("dec/{}/{}", fmt_items(o), fmt_items(r)),
        }
    }
    fn parse(s: &str) -> Call {
        let p: Vec<&str> = s.split('/').collect();
        if p[0] == "enc" {
            Call::Enc(if p[1] == "-" { vec![] } else { p[1].split(',').map(parse_usize).collect() })
        } else {
            Call::Dec(parse_items(p[1]), parse_items(p[2]))
        }
    }
    fn check(&self, data: &Data, k: usize, r: usize) -> Result<(), V> {
        match self {
            Call::Enc(l) => check_encode(data, k, r, l),
            Call::Dec(o, rr) => check_decode(data, k, r, o, rr),
        }
    }
}

/// two one-shot calls back to back on one fresh OS thread: the second must behave as if it were
/// the first (the one-shot functions have no state a caller could know about)
fn check_pair(data: &Data, k: usize, r: usize, first: &Call, second: &Call) -> Result<(), V> {
    std::thread::scope(|s| {
        std::thread::Builder::new()
            .stack_size(4 << 20)
            .spawn_scoped(s, || {
                let res = guard(|| {
                    let _ = first.check(data, k, r);
                    second.check(data, k, r)
                });
                match res {
                    Ok(r) => r.map_err(|(e, o)| (format!("after the call {} on the same thread: {e}", first.dump()), o)),
                    Err(p) => Err(("no panic".into(), format!("PANIC: {p}"))),
                }
            })
            .expect("spawn")
            .join()
            .expect("join")
    })
}

/// Reduced argument space of the one-shot functions, shared with C06 ("every public call ... returns a
/// truthful Err, neither panics nor returns Ok"): short lists over the index/size alphabets, complete
/// valid inputs followed by one surplus item, and unsupported count pairs with complete valid input.
pub fn oneshot_sweep(refm: &RefModel, seed: u64) -> (u64, Vec<(Kv, String, String)>) {
    let mut cases: Vec<Kv> = Vec::new();
    let classes = [0usize, 2, 3, 64];
    for (k, r) in [(1usize, 1usize), (2, 1), (2, 2), (3, 2)] {
        let base = Kv::new().with("k", k).with("r", r).with("seed", seed);
        let mut idx: Vec<usize> = vec![0, 1, k - 1, k, usize::MAX, 1 << 32];
        idx.sort();
        idx.dedup();
        let mut ridx: Vec<usize> = vec![0, 1, r - 1, r, usize::MAX, 1 << 32];
        ridx.sort();
        ridx.dedup();
        let oa: Vec<(usize, usize)> = idx.iter().flat_map(|i| classes.iter().map(move |c| (*i, *c))).collect();
        let ra: Vec<(usize, usize)> = ridx.iter().flat_map(|i| classes.iter().map(move |c| (*i, *c))).collect();
        for lens in sequences(&classes.to_vec(), k + 1) {
            cases.push(base.clone().with("fn", "encode").with("lens", if lens.is_empty() { "-".to_string() } else { fmt_lens(&lens) }));
        }
        let rls: Vec<Vec<(usize, usize)>> = sequences(&ra, 1);
        for ol in sequences(&oa, 2) {
            for rl in &rls {
                cases.push(base.clone().with("fn", "decode").with("orig", fmt_items(&ol)).with("rec", fmt_items(rl)));
            }
        }
        // complete valid originals, then one more item
        for b in [2usize, 64] {
            let all: Vec<(usize, usize)> = (0..k).map(|i| (i, b)).collect();
            for extra in &oa {
                let mut ol = all.clone();
                ol.push(*extra);
                for rl in &rls {
                    cases.push(base.clone().with("fn", "decode").with("orig", fmt_items(&ol)).with("rec", fmt_items(rl)));
                }
            }
        }
    }
    for (k, r) in [(3usize, 65533usize), (65533, 3), (60000, 5000), (32769, 32767), (65535, 2)] {
        let base = Kv::new().with("k", k).with("r", r).with("seed", seed);
        let all: Vec<(usize, usize)> = (0..k).map(|i| (i, 2)).collect();
        cases.push(base.clone().with("fn", "encode").with("lens", fmt_lens(&vec![2; k])));
        cases.push(base.clone().with("fn", "decode").with("orig", fmt_items(&all)).with("rec", "-"));
        cases.push(base.clone().with("fn", "decode").with("orig", fmt_items(&all[1..])).with("rec", fmt_items(&[(0, 2)])));
    }
    let results: Vec<Result<(), V>> = par_for(cases.len(), 64, |i| {
        let kv = &cases[i];
        let (k, r) = (kv.usize("k"), kv.usize("r"));
        let data = Data::new(refm, k, r, seed);
        let res = guard(|| if kv.str("fn") == "encode" { check_encode(&data, k, r, &parse_lens(kv.str("lens"))) } else { check_decode(&data, k, r, &parse_items(kv.str("orig")), &parse_items(kv.str("rec"))) });
        match res {
            Ok(r) => r,
            Err(p) => Err(("no panic".into(), format!("PANIC: {p}"))),
        }
    });
    let n = cases.len() as u64;
    let bad = cases.into_iter().zip(results).filter_map(|(kv, r)| r.err().map(|(e, o)| (kv, e, o))).collect();
    (n, bad)
}

pub fn replay(_ctx: &Ctx, case: &str) -> Result<(), String> {
    let kv = Kv::parse(case)?;
    let refm = RefModel::new();
    let (k, r) = (kv.usize("k"), kv.usize("r"));
    let data = Data::new(&refm, k, r, kv.u64("seed"));
    if kv.opt("first").is_some() {
        return check_pair(&data, k, r, &Call::parse(kv.str("first")), &Call::parse(kv.str("second"))).map_err(|(e, o)| format!("expected {e}; observed {o}"));
    }
    let res = if kv.str("fn") == "encode" {
        check_encode(&data, k, r, &parse_lens(kv.str("lens")))
    } else {
        check_decode(&data, k, r, &parse_items(kv.str("orig")), &parse_items(kv.str("rec")))
    };
    res.map_err(|(e, o)| format!("expected {e}; observed {o}"))
}

fn sequences<T: Clone>(alpha: &[T], max_len: usize) -> Vec<Vec<T>> {
    let mut out = vec![vec![]];
    let mut level: Vec<Vec<T>> = vec![vec![]];
    for _ in 0..max_len {
        let mut next = Vec::new();
        for s in &level {
            for a in alpha {
                let mut t = s.clone();
                t.push(a.clone());
                next.push(t);
            }
        }
        out.extend(next.iter().cloned());
        level = next;
    }
    out
}

pub fn run(ctx: &Ctx, rep: &mut Report) {
    let refm = RefModel::new();
    let seed = ctx.seed;
    rep.rule = "case = one argument tuple of encode()/decode(): counts from {(1,1),(2,1),(1,2),(2,2),(3,2),(0,1),(1,0),(65536,1)}, original/recovery lists = every sequence up to the length bound over (index alphabet) x (shard classes empty/2B/3B/64B/66B); oracle = equivalent ReedSolomonEncoder/Decoder sequence (must agree exactly on success) and the set of errors that truthfully name a violated precondition of the input; non-trivial = tuples that violate at least one precondition or that decode/encode real data; distinct by tuple".into();
    rep.assume("valid shards carry consistent data (originals and their reference recovery), so successful decodes are also compared with the true originals");
    let cfgs: Vec<(usize, usize)> = vec![(1, 1), (2, 1), (1, 2), (2, 2), (3, 2), (0, 1), (1, 0), (65536, 1)];
    let lens_alpha: Vec<usize> = CLASSES.iter().map(|c| c.1).collect();
    // per configuration: encode lists, decode original lists, decode recovery lists, valid sets
    struct Space {
        k: usize,
        r: usize,
        enc: Vec<Vec<usize>>,
        ol: Vec<Vec<(usize, usize)>>,
        rl: Vec<Vec<(usize, usize)>>,
        valid: Vec<(Vec<(usize, usize)>, Vec<(usize, usize)>)>,
    }
    let mut spaces: Vec<Space> = Vec::new();
    for &(k, r) in &cfgs {
        let kk = k.min(3);
        let enc = sequences(&lens_alpha, kk + 1);
        let mut idx: Vec<usize> = vec![0, 1, k.saturating_sub(1), k, usize::MAX, 1 << 32];
        idx.sort();
        idx.dedup();
        let mut ridx: Vec<usize> = vec![0, 1, r.saturating_sub(1), r, usize::MAX, 1 << 32];
        ridx.sort();
        ridx.dedup();
        let classes: Vec<usize> = vec![0, 2, 3, 64];
        let mut oa: Vec<(usize, usize)> = Vec::new();
        for &i in &idx {
            for &c in &classes {
                oa.push((i, c));
            }
        }
        let mut ra: Vec<(usize, usize)> = Vec::new();
        for &i in &ridx {
            for &c in &classes {
                ra.push((i, c));
            }
        }
        let (omax, rmax) = if ctx.thorough() { ((kk + 1).min(3), 2) } else { (2.min(kk + 1), 1) };
        let ol = sequences(&oa, omax);
        let rl = sequences(&ra, rmax);
        let mut valid = Vec::new();
        if spec_supports(Kind::Rs, k, r) && k <= 3 {
            for mask in crate::rt::subsets_at_least_k(k, r) {
                let (og, rg) = crate::rt::split_mask(k, r, mask);
                for b in [2usize, 64, 66] {
                    valid.push((og.iter().map(|i| (*i, b)).collect(), rg.iter().map(|i| (*i, b)).collect()));
                }
            }
        }
        spaces.push(Space { k, r, enc, ol, rl, valid });
    }
    rep.bound("list_lengths", J::s(if ctx.thorough() { "encode: 0..=min(k,3)+1 originals; decode: originals 0..=3, recovery 0..=2; plus every valid received-set" } else { "encode: 0..=min(k,3)+1 originals; decode: originals 0..=2, recovery 0..=1; plus every valid received-set" }));
    rep.bound("cfgs", J::s(format!("{cfgs:?}")));
    let datas: BTreeMap<(usize, usize), Data> = cfgs.iter().map(|&(k, r)| ((k, r), Data::new(&refm, k, r, seed))).collect();
    // flat index space
    let mut offs = vec![0usize];
    for sp in &spaces {
        offs.push(offs.last().unwrap() + sp.enc.len() + sp.ol.len() * sp.rl.len() + sp.valid.len());
    }
    let total = *offs.last().unwrap();
    let case_of = |idx: usize| -> Kv {
        let si = offs.partition_point(|o| *o <= idx) - 1;
        let sp = &spaces[si];
        let mut j = idx - offs[si];
        let base = Kv::new().with("k", sp.k).with("r", sp.r).with("seed", seed);
        if j < sp.enc.len() {
            return base.with("fn", "encode").with("lens", fmt_list(&sp.enc[j]));
        }
        j -= sp.enc.len();
        if j < sp.ol.len() * sp.rl.len() {
            return base.with("fn", "decode").with("orig", fmt_items(&sp.ol[j / sp.rl.len()])).with("rec", fmt_items(&sp.rl[j % sp.rl.len()]));
        }
        j -= sp.ol.len() * sp.rl.len();
        base.with("fn", "decode").with("orig", fmt_items(&sp.valid[j].0)).with("rec", fmt_items(&sp.valid[j].1))
    };
    let results: Vec<(bool, Option<Violation>)> = par_for(total, 1024, |idx| {
        let si = offs.partition_point(|o| *o <= idx) - 1;
        let sp = &spaces[si];
        let data = &datas[&(sp.k, sp.r)];
        let mut j = idx - offs[si];
        let mut is_enc = false;
        let res = guard(|| {
            if j < sp.enc.len() {
                is_enc = true;
                return check_encode(data, sp.k, sp.r, &sp.enc[j]);
            }
            j -= sp.enc.len();
            if j < sp.ol.len() * sp.rl.len() {
                return check_decode(data, sp.k, sp.r, &sp.ol[j / sp.rl.len()], &sp.rl[j % sp.rl.len()]);
            }
            j -= sp.ol.len() * sp.rl.len();
            check_decode(data, sp.k, sp.r, &sp.valid[j].0, &sp.valid[j].1)
        });
        let res = match res {
            Ok(r) => r,
            Err(p) => Err(("no panic".into(), format!("PANIC: {p}"))),
        };
        match res {
            Ok(()) => (is_enc, None),
            Err((exp, obs)) => {
                let kv = case_of(idx);
                (is_enc, Some(Violation {
                    key: format!("{}-k{}r{}-{}-{}", kv.str("fn"), kv.str("k"), kv.str("r"), kv.opt("lens").or(kv.opt("orig")).unwrap_or(""), kv.opt("rec").unwrap_or("")),
                    case: kv.dump(),
                    expected: exp,
                    observed: obs,
                }))
            }
        }
    });
    let mut n_enc = 0u64;
    let mut n_dec = 0u64;
    for (is_enc, v) in results {
        if is_enc {
            n_enc += 1;
        } else {
            n_dec += 1;
        }
        if let Some(v) = v {
            rep.violation(v);
        }
    }
    // ---- unsupported count pairs with otherwise complete, valid input (also inside 1..=65536 and with a
    // sum of at most 65536): the only truthful outcome is UnsupportedShardCount
    let gaps: Vec<(usize, usize)> = vec![(3, 65533), (5, 65531), (65533, 3), (60000, 5000), (32769, 32767), (4097, 61439), (65535, 2), (2, 65535), (40000, 40000)];
    let mut gap_cases: Vec<Kv> = Vec::new();
    for &(k, r) in &gaps {
        assert!(!spec_supports(Kind::Rs, k, r));
        let base = Kv::new().with("k", k).with("r", r).with("seed", seed);
        for b in [2usize, 64] {
            if b == 64 && k > 10 {
                continue;
            }
            let all: Vec<(usize, usize)> = (0..k).map(|i| (i, b)).collect();
            gap_cases.push(base.clone().with("fn", "encode").with("lens", fmt_lens(&vec![b; k])));
            gap_cases.push(base.clone().with("fn", "decode").with("orig", fmt_items(&all)).with("rec", "-"));
            gap_cases.push(base.clone().with("fn", "decode").with("orig", fmt_items(&all)).with("rec", fmt_items(&[(0, b)])));
            gap_cases.push(base.clone().with("fn", "decode").with("orig", fmt_items(&all[1..])).with("rec", fmt_items(&[(r - 1, b)])));
            gap_cases.push(base.clone().with("fn", "decode").with("orig", fmt_items(&all[..k - 1])).with("rec", "-"));
        }
    }
    let gap_results: Vec<Result<(), V>> = par_for(gap_cases.len(), 1, |i| {
        let kv = &gap_cases[i];
        let (k, r) = (kv.usize("k"), kv.usize("r"));
        let data = Data::new(&refm, k, r, seed);
        let res = guard(|| if kv.str("fn") == "encode" { check_encode(&data, k, r, &parse_lens(kv.str("lens"))) } else { check_decode(&data, k, r, &parse_items(kv.str("orig")), &parse_items(kv.str("rec"))) });
        match res {
            Ok(r) => r,
            Err(p) => Err(("no panic".into(), format!("PANIC: {p}"))),
        }
    });
    for (kv, res) in gap_cases.iter().zip(gap_results) {
        if kv.str("fn") == "encode" {
            n_enc += 1;
        } else {
            n_dec += 1;
        }
        if let Err((exp, obs)) = res {
            rep.violation(Violation { key: format!("{}-k{}r{}-{}-{}", kv.str("fn"), kv.str("k"), kv.str("r"), kv.opt("lens").or(kv.opt("orig")).unwrap_or(""), kv.opt("rec").unwrap_or("")), case: kv.dump(), expected: exp, observed: obs });
        }
    }
    rep.bound("unsupported_count_pairs", J::s(format!("{gaps:?}: encode with all originals; decode with all originals and no / one recovery shard, with one original replaced by a recovery shard, with one original missing")));
    // ---- every original_count in a range (counts at and around 8/16/32/64/128-bit word sizes), complete and
    // nearly complete inputs: the shortcut paths of the one-shot functions (no recovery shards, nothing missing)
    let kmax = if ctx.thorough() { 300 } else { 140 };
    let mut sweep_cases: Vec<Kv> = Vec::new();
    for k in 1..=kmax {
        for r in [1usize, 3, 64] {
            if !spec_supports(Kind::Rs, k, r) {
                continue;
            }
            let base = Kv::new().with("k", k).with("r", r).with("seed", seed);
            let all: Vec<(usize, usize)> = (0..k).map(|i| (i, 2)).collect();
            if r == 1 {
                sweep_cases.push(base.clone().with("fn", "encode").with("lens", fmt_lens(&vec![2; k])));
                sweep_cases.push(base.clone().with("fn", "encode").with("lens", fmt_lens(&vec![2; k - 1])));
                sweep_cases.push(base.clone().with("fn", "decode").with("orig", "-").with("rec", "-"));
                sweep_cases.push(base.clone().with("fn", "decode").with("orig", fmt_items(&all[..k - 1])).with("rec", "-"));
                sweep_cases.push(base.clone().with("fn", "decode").with("orig", fmt_items(&all[1..])).with("rec", "-"));
            }
            sweep_cases.push(base.clone().with("fn", "decode").with("orig", fmt_items(&all)).with("rec", "-"));
            sweep_cases.push(base.clone().with("fn", "decode").with("orig", fmt_items(&all)).with("rec", fmt_items(&[(r - 1, 2)])));
            sweep_cases.push(base.clone().with("fn", "decode").with("orig", fmt_items(&all[1..])).with("rec", fmt_items(&[(0, 2)])));
            sweep_cases.push(base.clone().with("fn", "decode").with("orig", fmt_items(&all[..k - 1])).with("rec", fmt_items(&[(r - 1, 2)])));
            if k >= 3 && r >= 3 {
                let mid: Vec<(usize, usize)> = (0..k).filter(|i| *i != k / 2 && *i != k / 2 + 1).map(|i| (i, 2)).collect();
                sweep_cases.push(base.clone().with("fn", "decode").with("orig", fmt_items(&mid)).with("rec", fmt_items(&[(0, 2), (r - 1, 2)])));
            }
        }
    }
    // mid-size configurations: every pair of missing originals through the one-shot decode
    for (k, r) in [(100usize, 10usize), (70, 70)] {
        let base = Kv::new().with("k", k).with("r", r).with("seed", seed);
        for i in 0..k {
            for j in i + 1..k {
                if !ctx.thorough() && (i + j) % 2 == 1 && j != i + 1 {
                    continue;
                }
                let og: Vec<(usize, usize)> = (0..k).filter(|x| *x != i && *x != j).map(|x| (x, 2)).collect();
                sweep_cases.push(base.clone().with("fn", "decode").with("orig", fmt_items(&og)).with("rec", fmt_items(&[(i % r, 2), ((i % r + 1 + j % (r - 1)) % r, 2)])));
            }
        }
    }
    let sweep_results: Vec<Result<(), V>> = par_for(sweep_cases.len(), 16, |i| {
        let kv = &sweep_cases[i];
        let (k, r) = (kv.usize("k"), kv.usize("r"));
        let data = Data::new(&refm, k, r, seed);
        let res = guard(|| if kv.str("fn") == "encode" { check_encode(&data, k, r, &parse_lens(kv.str("lens"))) } else { check_decode(&data, k, r, &parse_items(kv.str("orig")), &parse_items(kv.str("rec"))) });
        match res {
            Ok(r) => r,
            Err(p) => Err(("no panic".into(), format!("PANIC: {p}"))),
        }
    });
    for (kv, res) in sweep_cases.iter().zip(sweep_results) {
        if kv.str("fn") == "encode" {
            n_enc += 1;
        } else {
            n_dec += 1;
        }
        if let Err((exp, obs)) = res {
            rep.violation(Violation { key: format!("{}-k{}r{}-{}-{}", kv.str("fn"), kv.str("k"), kv.str("r"), kv.opt("lens").or(kv.opt("orig")).unwrap_or(""), kv.opt("rec").unwrap_or("")), case: kv.dump(), expected: exp, observed: obs });
        }
    }
    rep.bound("count_sweep", J::s(format!("every original_count 1..={kmax} x recovery_count {{1,3,64}}: complete / empty / one-short inputs with and without recovery shards (the short-cut paths), two missing in the middle; every pair of missing originals of (100,10) and (70,70) (quick: pairs with an even index sum and all adjacent pairs) through the one-shot decode ({} calls), each under three size_hint behaviours of the argument iterators", sweep_cases.len())));
    // ---- call pairs on one thread
    let mut pair_total = 0u64;
    for &(k, r) in &[(2usize, 1usize), (2, 2), (3, 2)] {
        let data = &datas[&(k, r)];
        let mut calls: Vec<Call> = Vec::new();
        // encode tuples: lists up to k+1 over {64, 2, 66}
        for l in sequences(&[64usize, 2, 66], k + 1) {
            calls.push(Call::Enc(l));
        }
        // decode tuples: every valid received-set at 64 bytes, and short (possibly invalid) lists
        for mask in crate::rt::subsets_at_least_k(k, r) {
            let (og, rg) = crate::rt::split_mask(k, r, mask);
            calls.push(Call::Dec(og.iter().map(|i| (*i, 64)).collect(), rg.iter().map(|i| (*i, 64)).collect()));
        }
        let mut oa = Vec::new();
        for i in [0usize, 1, k] {
            for c in [64usize, 2] {
                oa.push((i, c));
            }
        }
        let ol = sequences(&oa, if ctx.thorough() { 2 } else { 1 });
        let mut ra = Vec::new();
        for i in [0usize, r] {
            for c in [64usize, 2] {
                ra.push((i, c));
            }
        }
        let rl = sequences(&ra, 1);
        for o in &ol {
            for rr in &rl {
                calls.push(Call::Dec(o.clone(), rr.clone()));
            }
        }
        let n = calls.len();
        let res: Vec<Option<Violation>> = par_for(n * n, 64, |idx| {
            let (a, b) = (&calls[idx / n], &calls[idx % n]);
            match check_pair(data, k, r, a, b) {
                Ok(()) => None,
                Err((exp, obs)) => Some(Violation {
                    key: format!("pair-k{k}r{r}-{}-then-{}", a.dump(), b.dump()),
                    case: Kv::new().with("k", k).with("r", r).with("seed", seed).with("first", a.dump()).with("second", b.dump()).dump(),
                    expected: exp,
                    observed: obs,
                }),
            }
        });
        pair_total += (n * n) as u64;
        for v in res.into_iter().flatten() {
            rep.violation(v);
        }
        if k == 2 && r == 2 {
            rep.sample(Kv::new().with("k", k).with("r", r).with("first", calls[n / 3].dump()).with("second", calls[n - 2].dump()).dump());
        }
    }
    rep.extra("call_pairs", J::i(pair_total));
    rep.bound("call_pairs", J::s("every ordered pair of calls from a reduced tuple alphabet (all encode lists up to k+1 over 3 sizes, every valid received-set, short invalid lists) for (2,1) (2,2) (3,2), each pair on a fresh OS thread; the second call is checked"));
    let total = total + pair_total as usize;
    rep.states = total as u64;
    rep.transitions = total as u64;
    rep.evaluations = total as u64;
    rep.traces = total as u64;
    rep.distinct = total as u64;
    rep.extra("encode_tuples", J::i(n_enc));
    rep.extra("decode_tuples", J::i(n_dec));
    for i in [1, (total - pair_total as usize) / 3, (total - pair_total as usize) / 2, total - pair_total as usize - 1] {
        rep.sample(case_of(i).dump());
    }
}
