//! C06 — invalid use yields a truthful Error, valid use succeeds, nothing panics.
//! Breadth-first exploration of call histories on the real codec objects; every observation is
//! compared with the set of acceptable outcomes of the reference API model; states are merged
//! only when the model state AND the digest of the concrete object state coincide.
use std::collections::{BTreeMap, HashSet};

use crate::api::*;
use crate::core::*;
use crate::json::J;
use crate::kv::*;
use crate::report::*;

pub const VALID_CFGS: [(usize, usize, usize); 4] = [(1, 1, 2), (2, 1, 64), (3, 2, 66), (2, 3, 64)];

pub fn invalid_cfgs() -> Vec<(usize, usize, usize)> {
    vec![
        (0, 1, 64),
        (1, 0, 64),
        (0, 0, 0),
        (65536, 1, 64),
        (1, 65536, 64),
        (32769, 32769, 64),
        (61441, 4096, 64),
        (4096, 61441, 64),
        (usize::MAX, usize::MAX, 64),
        (1 << 32, 1, 2),
        (2, 3, 0),
        (2, 3, 63),
        (2, 3, 1),
        (2, 3, usize::MAX),
        (0, 1, 0),
        (usize::MAX, 1, 3),
    ]
}

/// operation alphabet in a given model state (simplest first)
pub fn enabled_ops(s: &Spec, with_recycle: bool) -> Vec<Op> {
    let mut v = Vec::new();
    let b = s.b;
    if !s.decoder {
        v.push(Op::Add(b));
        v.push(Op::Encode);
        for len in [0usize, 1, b + 2, b.saturating_sub(2), 2 * b] {
            if len != b && !v.contains(&Op::Add(len)) {
                v.push(Op::Add(len));
            }
        }
    } else {
        let hi = spec_is_high(s.kind, s.k, s.r);
        let obase = if hi { pow2ceil(s.r) } else { 0 };
        let rbase = if hi { 0 } else { pow2ceil(s.k) };
        // 1 << 32, 1 << 16, 1 << 8: aliases of index 0 under truncation to 32, 16, 8 bits
        let mut oi = vec![0usize, 1, s.k - 1, s.k, s.k + 1, usize::MAX - obase, (usize::MAX - obase).wrapping_add(1), usize::MAX, 1 << 32, 1 << 16, 1 << 8];
        let mut ri = vec![0usize, 1, s.r - 1, s.r, s.r + 1, usize::MAX - rbase, (usize::MAX - rbase).wrapping_add(1), usize::MAX, 1 << 32, 1 << 16, 1 << 8];
        oi.dedup();
        ri.dedup();
        let mut seen = HashSet::new();
        for i in oi {
            if seen.insert(i) {
                v.push(Op::AddO(i, b));
            }
        }
        let mut seen = HashSet::new();
        for j in ri {
            if seen.insert(j) {
                v.push(Op::AddR(j, b));
            }
        }
        v.push(Op::Decode);
        // several violations at once
        v.push(Op::AddO(0, b + 2));
        v.push(Op::AddO(s.k, 0));
        v.push(Op::AddO(usize::MAX, 1));
        v.push(Op::AddR(0, 0));
        v.push(Op::AddR(s.r, b + 2));
        v.push(Op::AddR(usize::MAX, b - 1));
    }
    for (k, r, bb) in VALID_CFGS {
        v.push(Op::Reset(k, r, bb));
    }
    for (k, r, bb) in invalid_cfgs() {
        v.push(Op::Reset(k, r, bb));
    }
    if with_recycle && s.kind != Kind::Rs {
        for kind in [Kind::High, Kind::Low, Kind::Def] {
            for (k, r, bb) in [(2usize, 1usize, 64usize), (2, 3, 64)] {
                v.push(Op::Recycle(kind, k, r, bb));
            }
            // hand the working space to a codec of another kind with the *current* configuration
            let same = Op::Recycle(kind, s.k, s.r, s.b);
            if kind != s.kind && !v.contains(&same) {
                v.push(same);
            }
        }
    }
    v
}

pub struct Start {
    pub eng: &'static str,
    pub decoder: bool,
    pub kind: Kind,
    pub cfg: (usize, usize, usize),
    pub soil: u64,
}

impl Start {
    pub fn kv(&self, ops: &[Op], seed: u64) -> Kv {
        Kv::new()
            .with("eng", self.eng)
            .with("dir", if self.decoder { "dec" } else { "enc" })
            .with("kind", self.kind.name())
            .with("k", self.cfg.0)
            .with("r", self.cfg.1)
            .with("b", self.cfg.2)
            .with("soil", self.soil)
            .with("seed", seed)
            .with("ops", dump_ops(ops))
    }
}

/// starts of C06 only: additionally a configuration whose high-rate and low-rate layouts need
/// different amounts of working space ((3,1): 3 vs 4 positions encoding, 4 vs 8 decoding)
pub fn starts_c06(thorough: bool, soil: u64) -> Vec<Start> {
    let mut v = starts(thorough, soil);
    for decoder in [false, true] {
        for kind in [Kind::High, Kind::Low] {
            v.push(Start { eng: "nosimd", decoder, kind, cfg: (3, 1, 64), soil });
        }
    }
    v
}

pub fn starts(thorough: bool, soil: u64) -> Vec<Start> {
    let mut v = Vec::new();
    for decoder in [false, true] {
        for kind in [Kind::Rs, Kind::Def, Kind::High, Kind::Low] {
            for cfg in VALID_CFGS {
                if !thorough && cfg == (1, 1, 2) {
                    continue;
                }
                let eng = if kind == Kind::Rs { "default" } else { "nosimd" };
                v.push(Start { eng, decoder, kind, cfg, soil });
                if thorough {
                    v.push(Start { eng, decoder, kind, cfg, soil: 0 });
                }
            }
        }
    }
    // working space above 1 MiB (thresholds of allocators and of plausible "free big buffers" optimisations)
    for decoder in [false, true] {
        for kind in [Kind::High, Kind::Low, Kind::Def] {
            v.push(Start { eng: "nosimd", decoder, kind, cfg: (2, 1, 1 << 20), soil: 0 });
        }
    }
    v
}

pub fn is_big(st: &Start) -> bool {
    st.cfg.2 >= 1 << 20
}

fn soil_opt(s: u64) -> Option<u64> {
    if s == 0 {
        None
    } else {
        Some(s)
    }
}

pub fn replay(_ctx: &Ctx, case: &str) -> Result<(), String> {
    let kv = Kv::parse(case)?;
    if kv.opt("fn").is_some() {
        return crate::c10::replay(_ctx, case); // one-shot call
    }
    if kv.opt("static").is_some() {
        return crate::c08::check_agree(Kind::parse(kv.str("kind")), kv.usize("k"), kv.usize("r"), kv.usize("bytes")).map(|_| ()).map_err(|(e, o)| format!("expected {e}; observed {o}"));
    }
    let refm = RefModel::new();
    let m = Model { refm: &refm, seed: kv.u64("seed") };
    let ops = parse_ops(kv.str("ops"));
    let run = run_history(&m, kv.str("eng"), kv.str("dir") == "dec", Kind::parse(kv.str("kind")), kv.usize("k"), kv.usize("r"), kv.usize("b"), soil_opt(kv.u64("soil")), &ops);
    match run.first_bad {
        None => Ok(()),
        Some((i, exp)) => Err(format!("call #{i} {}: expected {exp}; observed {}", ops[i].dump(), run.obs[i].short())),
    }
}

pub fn run(ctx: &Ctx, rep: &mut Report) {
    let refm = RefModel::new();
    let m = Model { refm: &refm, seed: ctx.seed };
    let depth = if ctx.thorough() { 6 } else { 4 };
    rep.rule = "state = (reference-model state, digest of the concrete object); transition = one public call (add/encode/decode/reset/recycle) with arguments from an alphabet containing 0, off-by-one, usize::MAX and wrap-around indexes, wrong lengths and several violations at once; every observation must be Ok with the reference bytes, or an Err naming a really violated precondition; non-trivial = transitions whose call violates at least one precondition or completes a round (encode/decode returning bytes); distinct by (start, history)".into();
    rep.assume("shard sizes whose working space cannot be allocated are not exercised (outside the property)");
    rep.assume("state merging: two histories are merged only if model state and verif_digest (configuration, counters, bitmap, every byte of working memory) coincide");
    rep.bound("depth", J::i(depth));
    let sts = starts_c06(ctx.thorough(), ctx.seed | 1);
    rep.bound("starts", J::s(format!("{} = {{enc,dec}} x {{rs,def,high,low}} x cfgs {:?}{}", sts.len(), VALID_CFGS, if ctx.thorough() { " x {soiled, fresh}" } else { " (soiled; (1,1,2) thorough only)" })));

    let mut obs_kinds: BTreeMap<String, u64> = BTreeMap::new();
    // pass 1: merged BFS to `depth`; pass 2: the same search WITHOUT merging to a smaller depth, so
    // that state a change keeps outside the digested fields cannot hide behind a merge
    let unmerged_depth = if ctx.thorough() { 4 } else { 3 };
    rep.bound("unmerged_depth", J::i(unmerged_depth));
    for (st, merge) in sts.iter().map(|s| (s, true)).chain(sts.iter().filter(|s| s.soil != 0 || !ctx.thorough()).map(|s| (s, false))) {
        let depth = if is_big(st) { 2 } else if merge { depth } else { unmerged_depth };
        if is_big(st) && !merge {
            continue;
        }
        // BFS
        let mut seen: HashSet<(Spec, Option<u64>)> = HashSet::new();
        let init = run_history(&m, st.eng, st.decoder, st.kind, st.cfg.0, st.cfg.1, st.cfg.2, soil_opt(st.soil), &[]);
        seen.insert((init.spec.clone(), init.digest));
        let mut frontier: Vec<(Vec<Op>, Spec)> = vec![(vec![], init.spec.clone())];
        rep.states += 1;
        for _level in 0..depth {
            // expand all (node, op) pairs in parallel
            let mut work: Vec<(usize, Op)> = Vec::new();
            for (ni, (_, spec)) in frontier.iter().enumerate() {
                for op in enabled_ops(spec, true) {
                    work.push((ni, op));
                }
            }
            let results: Vec<(Run, Vec<Op>)> = par_for(work.len(), 16, |wi| {
                let (ni, op) = &work[wi];
                let mut ops = frontier[*ni].0.clone();
                ops.push(op.clone());
                let run = run_history(&m, st.eng, st.decoder, st.kind, st.cfg.0, st.cfg.1, st.cfg.2, soil_opt(st.soil), &ops);
                (run, ops)
            });
            let mut next: Vec<(Vec<Op>, Spec)> = Vec::new();
            for (run, ops) in results {
                rep.transitions += 1;
                rep.evaluations += 1;
                let last = run.obs.last().unwrap();
                let tag = match last {
                    Obs::Ok => "Ok".to_string(),
                    Obs::Recovery(_) => "Ok(recovery)".to_string(),
                    Obs::Restored(_) => "Ok(restored)".to_string(),
                    Obs::Err(e) => format!("Err({})", format!("{e:?}").split([' ', '{']).next().unwrap_or("")),
                    Obs::Panic(_) => "Panic".to_string(),
                    Obs::Dead => "Dead".to_string(),
                };
                *obs_kinds.entry(format!("{}:{}", ops.last().unwrap().dump().split(':').next().unwrap(), tag)).or_default() += 1;
                if !matches!(last, Obs::Ok) {
                    rep.distinct += 1;
                }
                if let Some((i, exp)) = &run.first_bad {
                    rep.violation(Violation {
                        key: format!("{}-{}-{}-{}_{}_{}-{}", if st.decoder { "dec" } else { "enc" }, st.kind.name(), st.eng, st.cfg.0, st.cfg.1, st.cfg.2, dump_ops(&ops)),
                        case: st.kv(&ops, ctx.seed).dump(),
                        expected: format!("call #{i} {} -> {exp}", ops[*i].dump()),
                        observed: run.obs[*i].short(),
                    });
                    continue;
                }
                rep.traces += 1;
                if run.digest.is_none() {
                    continue; // object consumed by a (correctly) failing new(): leaf
                }
                if !merge || seen.insert((run.spec.clone(), run.digest)) {
                    rep.states += 1;
                    next.push((ops, run.spec));
                }
            }
            frontier = next;
        }
        if rep.samples.len() < 4 {
            if let Some((ops, _)) = frontier.last() {
                rep.sample(st.kv(ops, ctx.seed).dump());
            }
        }
    }
    let mut ok = J::obj();
    for (k, v) in &obs_kinds {
        ok.set(k, J::i(*v));
    }
    rep.extra("observations_by_call_and_outcome", ok);

    // the one-shot functions: truthful errors, no panics, no Ok for invalid input
    let (n_one, bad) = crate::c10::oneshot_sweep(&refm, ctx.seed);
    rep.evaluations += n_one;
    rep.transitions += n_one;
    rep.traces += n_one;
    rep.states += n_one;
    rep.distinct += n_one;
    rep.bound("oneshot_calls", J::s(format!("{n_one} argument tuples of encode()/decode(): lists of <= 2 originals and <= 1 recovery shard over (index alphabet) x (sizes 0, 2, 3, 64) for (1,1) (2,1) (2,2) (3,2), complete valid inputs followed by one surplus item, unsupported count pairs with complete valid input")));
    for (kv, exp, obs) in bad {
        rep.violation(Violation { key: format!("oneshot-{}-k{}r{}-{}-{}", kv.str("fn"), kv.str("k"), kv.str("r"), kv.opt("lens").or(kv.opt("orig")).unwrap_or(""), kv.opt("rec").unwrap_or("")), case: kv.dump(), expected: exp, observed: obs });
    }
    // static argument sweep: validate/new/reset over the count x size alphabet
    let counts = [0usize, 1, 2, 3, 5, 32768, 32769, 61440, 61441, 65535, 65536, 65537, 1 << 32, (1 << 32) + 1, (1 << 32) + 2, usize::MAX];
    let sizes = [0usize, 1, 2, 3, 64, 65, 66, (1 << 32) + 1, usize::MAX, usize::MAX - 1];
    let mut sweep = Vec::new();
    for kind in [Kind::Rs, Kind::Def, Kind::High, Kind::Low] {
        for &k in &counts {
            for &r in &counts {
                for &b in &sizes {
                    sweep.push(Kv::new().with("what", "agree").with("kind", kind.name()).with("k", fmt_usize(k)).with("r", fmt_usize(r)).with("bytes", fmt_usize(b)));
                }
            }
        }
    }
    let res: Vec<Result<u64, (String, String)>> = par_for(sweep.len(), 8, |i| {
        let kv = &sweep[i];
        crate::c08::check_agree(Kind::parse(kv.str("kind")), kv.usize("k"), kv.usize("r"), kv.usize("bytes"))
    });
    let mut n_sweep = 0u64;
    for (kv, r) in sweep.iter().zip(res) {
        match r {
            Ok(n) => n_sweep += n,
            Err((e, o)) => rep.violation(Violation { key: format!("static-{}-{}-{}-{}", kv.str("kind"), kv.str("k"), kv.str("r"), kv.str("bytes")), case: format!("static=1 {}", kv.dump()), expected: e, observed: o }),
        }
    }
    rep.evaluations += n_sweep;
    rep.extra("static_calls_compared", J::i(n_sweep));
    rep.bound("static_sweep", J::s(format!("validate (and new/reset where the configuration is small) for counts {:?} squared x sizes {:?} x 4 kinds", counts.iter().map(|x| fmt_usize(*x)).collect::<Vec<_>>(), sizes.iter().map(|x| fmt_usize(*x)).collect::<Vec<_>>())));
}
