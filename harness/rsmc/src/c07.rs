//! C07 — a failed call changes nothing and leaves the object usable.
//! Differential twin runs on the real objects: for every explored history h, every failing call f
//! enabled after h and every continuation c (always completed to a full round whose output is
//! read), the observations of c after h++[f] must equal, call for call, those after h alone.
use std::collections::HashSet;

use crate::api::*;
use crate::c06::{enabled_ops, is_big, starts, Start};
use crate::core::*;
use crate::json::J;
use crate::kv::*;
use crate::report::*;

fn soil_opt(s: u64) -> Option<u64> {
    if s == 0 {
        None
    } else {
        Some(s)
    }
}

/// small continuation alphabet (valid next steps and the typical next mistakes)
fn core_ops(s: &Spec) -> Vec<Op> {
    let mut v = Vec::new();
    if !s.decoder {
        v.push(Op::Add(s.b));
        v.push(Op::Encode);
    } else {
        let next_o = (0..s.k).find(|i| !s.orig.contains(i));
        let next_r = (0..s.r).rev().find(|j| !s.rec.contains(j));
        if let Some(i) = next_o {
            v.push(Op::AddO(i, s.b));
        }
        if let Some(j) = next_r {
            v.push(Op::AddR(j, s.b));
        }
        if let Some(i) = s.orig.iter().next() {
            v.push(Op::AddO(*i, s.b)); // duplicate
        }
        v.push(Op::Decode);
    }
    v.push(Op::Reset(2, 3, 64));
    v.push(Op::Reset(3, 2, 66));
    if s.kind != Kind::Rs {
        v.push(Op::Recycle(if s.kind == Kind::High { Kind::Low } else { Kind::High }, 2, 1, 64));
    }
    v
}

/// ops that complete the current round from model state `s`
fn completion(s: &Spec) -> Vec<Op> {
    let mut v = Vec::new();
    if !s.decoder {
        for _ in s.received..s.k {
            v.push(Op::Add(s.b));
        }
        v.push(Op::Encode);
    } else {
        let mut have = s.orig.len() + s.rec.len();
        // originals except index 0 first, then recovery from the top
        for i in 1..s.k {
            if have >= s.k {
                break;
            }
            if !s.orig.contains(&i) {
                v.push(Op::AddO(i, s.b));
                have += 1;
            }
        }
        for j in (0..s.r).rev() {
            if have >= s.k {
                break;
            }
            if !s.rec.contains(&j) {
                v.push(Op::AddR(j, s.b));
                have += 1;
            }
        }
        if have < s.k && !s.orig.contains(&0) {
            v.push(Op::AddO(0, s.b));
        }
        v.push(Op::Decode);
    }
    v
}

fn model_after(m: &Model, mut s: Spec, ops: &[Op]) -> Spec {
    for op in ops {
        if !matches!(m.expect(&s, op), Expect::ErrAny(_)) {
            m.apply(&mut s, op);
        }
    }
    s
}

/// continuations of depth <= b from state s, each extended by the completion of the round
fn continuations(m: &Model, s: &Spec, b: usize) -> Vec<Vec<Op>> {
    let mut out: Vec<Vec<Op>> = Vec::new();
    let mut level: Vec<(Vec<Op>, Spec)> = vec![(vec![], s.clone())];
    for _ in 0..=b {
        let mut next = Vec::new();
        for (ops, st) in &level {
            let mut full = ops.clone();
            full.extend(completion(st));
            out.push(full);
            for op in core_ops(st) {
                let mut o2 = ops.clone();
                o2.push(op.clone());
                let st2 = model_after(m, st.clone(), &[op]);
                next.push((o2, st2));
            }
        }
        level = next;
    }
    // the last level's prefixes were generated but only completed ones are emitted: trim
    out.sort();
    out.dedup();
    out
}

fn twin(m: &Model, st: &Start, h: &[Op], f: &Op, c: &[Op], base: &Run) -> Result<(), (String, String)> {
    let mut ops = h.to_vec();
    ops.push(f.clone());
    ops.extend_from_slice(c);
    let run = run_history(m, st.eng, st.decoder, st.kind, st.cfg.0, st.cfg.1, st.cfg.2, soil_opt(st.soil), &ops);
    let fo = &run.obs[h.len()];
    if !matches!(fo, Obs::Err(_)) {
        if let Obs::Panic(p) = fo {
            return Err((format!("failing call {} returns Err", f.dump()), format!("PANIC: {p}")));
        }
        // the call did not fail here although the model says it must: that is C06's finding, not a C07 case
        return Ok(());
    }
    for (i, (a, b)) in base.obs[h.len()..].iter().zip(run.obs[h.len() + 1..].iter()).enumerate() {
        if a != b {
            return Err((format!("after failed {}: call #{i} of the continuation ({}) -> {} (as without the failed call)", f.dump(), c[i].dump(), a.short()), b.short()));
        }
    }
    Ok(())
}

pub fn replay(_ctx: &Ctx, case: &str) -> Result<(), String> {
    let kv = Kv::parse(case)?;
    let refm = RefModel::new();
    let m = Model { refm: &refm, seed: kv.u64("seed") };
    let st = Start {
        eng: if kv.str("eng") == "default" { "default" } else { "nosimd" },
        decoder: kv.str("dir") == "dec",
        kind: Kind::parse(kv.str("kind")),
        cfg: (kv.usize("k"), kv.usize("r"), kv.usize("b")),
        soil: kv.u64("soil"),
    };
    let h = parse_ops(kv.str("h"));
    let f = Op::parse(kv.str("f"));
    let c = parse_ops(kv.str("c"));
    let mut hc = h.clone();
    hc.extend_from_slice(&c);
    let base = run_history(&m, st.eng, st.decoder, st.kind, st.cfg.0, st.cfg.1, st.cfg.2, soil_opt(st.soil), &hc);
    twin(&m, &st, &h, &f, &c, &base).map_err(|(e, o)| format!("expected {e}; observed {o}"))
}

pub fn run(ctx: &Ctx, rep: &mut Report) {
    let refm = RefModel::new();
    let m = Model { refm: &refm, seed: ctx.seed };
    let (a, b) = if ctx.thorough() { (3usize, 2usize) } else { (2, 1) };
    rep.rule = "case = (start, history h of depth<=a reached by BFS with exact state merging, failing call f enabled after h, continuation c of depth<=b completed to a full round); the observations of c after h++[f] must equal those after h, call for call (results, errors, restored/recovery bytes), and nothing may panic; non-trivial = every twin run (each contains a failing call followed by a completed round); distinct by (start,h,f,c)".into();
    rep.assume("a failing new(.., Some(work)) consumes the old object by move and is therefore not a 'failed call on an object'; it is excluded as f");
    rep.bound("a_history_depth", J::i(a));
    rep.bound("b_continuation_depth", J::i(b));
    let sts = starts(ctx.thorough(), ctx.seed | 1);
    rep.bound("starts", J::i(sts.len()));
    let mut failing_kinds: std::collections::BTreeMap<String, u64> = Default::default();
    for st in &sts {
        // histories: BFS with merging to depth a
        let mut seen: HashSet<(Spec, Option<u64>)> = HashSet::new();
        let init = run_history(&m, st.eng, st.decoder, st.kind, st.cfg.0, st.cfg.1, st.cfg.2, soil_opt(st.soil), &[]);
        seen.insert((init.spec.clone(), init.digest));
        let mut all: Vec<(Vec<Op>, Spec)> = vec![(vec![], init.spec.clone())];
        let mut frontier = all.clone();
        for _ in 0..(if is_big(st) { 1 } else { a }) {
            let mut work: Vec<(usize, Op)> = Vec::new();
            for (ni, (_, spec)) in frontier.iter().enumerate() {
                for op in enabled_ops(spec, true) {
                    work.push((ni, op));
                }
            }
            let results: Vec<(Run, Vec<Op>)> = par_for(work.len(), 16, |wi| {
                let (ni, op) = &work[wi];
                let mut ops = frontier[*ni].0.clone();
                ops.push(op.clone());
                (run_history(&m, st.eng, st.decoder, st.kind, st.cfg.0, st.cfg.1, st.cfg.2, soil_opt(st.soil), &ops), ops)
            });
            let mut next = Vec::new();
            for (run, ops) in results {
                rep.transitions += 1;
                if run.first_bad.is_some() || run.digest.is_none() {
                    continue; // C06 reports non-conformance; dead objects have no continuation
                }
                if seen.insert((run.spec.clone(), run.digest)) {
                    next.push((ops, run.spec));
                }
            }
            all.extend(next.iter().cloned());
            frontier = next;
        }
        rep.states += all.len() as u64;
        // twin runs
        let mut jobs: Vec<(usize, Vec<Op>)> = Vec::new();
        for (hi, (_, spec)) in all.iter().enumerate() {
            for c in continuations(&m, spec, if is_big(st) { 0 } else { b }) {
                jobs.push((hi, c));
            }
        }
        let results: Vec<(u64, Vec<(Op, Vec<Violation>)>)> = par_for(jobs.len(), 4, |ji| {
            let (hi, c) = &jobs[ji];
            let (h, spec) = &all[*hi];
            let mut hc = h.clone();
            hc.extend_from_slice(c);
            let base = run_history(&m, st.eng, st.decoder, st.kind, st.cfg.0, st.cfg.1, st.cfg.2, soil_opt(st.soil), &hc);
            let mut n = 0u64;
            let mut out = Vec::new();
            for f in enabled_ops(spec, false) {
                if !matches!(m.expect(spec, &f), Expect::ErrAny(_)) {
                    continue;
                }
                n += 1;
                if let Err((exp, obs)) = twin(&m, st, h, &f, c, &base) {
                    let kv = st.kv(&[], ctx.seed).with("h", dump_ops(h)).with("f", f.dump()).with("c", dump_ops(c));
                    out.push((
                        f.clone(),
                        vec![Violation {
                            key: format!("{}-{}-{}_{}_{}-h={}-f={}-c={}", if st.decoder { "dec" } else { "enc" }, st.kind.name(), st.cfg.0, st.cfg.1, st.cfg.2, dump_ops(h), f.dump(), dump_ops(c)),
                            case: kv.dump(),
                            expected: exp,
                            observed: obs,
                        }],
                    ));
                } else {
                    out.push((f.clone(), vec![]));
                }
            }
            (n, out)
        });
        for (n, out) in results {
            rep.evaluations += n;
            rep.traces += n;
            rep.distinct += n;
            for (f, vs) in out {
                *failing_kinds.entry(f.dump().split(':').next().unwrap().to_string()).or_default() += 1;
                rep.violations(vs);
            }
        }
        if rep.samples.len() < 4 && !jobs.is_empty() {
            let (hi, c) = &jobs[jobs.len() / 2];
            let (h, spec) = &all[*hi];
            if let Some(f) = enabled_ops(spec, false).into_iter().find(|f| matches!(m.expect(spec, f), Expect::ErrAny(_))) {
                rep.sample(st.kv(&[], ctx.seed).with("h", dump_ops(h)).with("f", f.dump()).with("c", dump_ops(c)).dump());
            }
        }
    }
    let mut fk = J::obj();
    for (k, v) in &failing_kinds {
        fk.set(k, J::i(*v));
    }
    rep.extra("twin_runs_by_failing_call", fk);
}
