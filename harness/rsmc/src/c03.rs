//! C03 — all engines bit-identical, primitive by primitive and end to end.
//! Small-scope exhaustive enumeration of the primitives' argument space; every engine against
//! Naive, restricted to the bytes the contract defines (fft: first truncated_size outputs for any
//! input; ifft: all outputs when the inputs beyond truncated_size are zero; mul, eval_poly: all).
use crate::core::*;
use crate::json::J;
use crate::kv::*;
use crate::prim::*;
use crate::report::*;
use crate::rt::*;
use crate::with_engine;

const GUARD: usize = 2;

fn deltas_for(size: usize) -> Vec<usize> {
    let mut v = vec![0usize, size, 2 * size, 3 * size, 65536usize.saturating_sub(2 * size), 65536 - size, 1, 5];
    v.retain(|d| d + size <= 65536);
    v.sort();
    v.dedup();
    v
}

/// One transform case for engine `eng` against Naive.
fn check_transform(eng: &str, dir: Dir, n: u32, trunc: usize, pos: usize, delta: usize, len64: usize, seed: u64, shape: &str) -> Result<(), (String, String)> {
    let size = 1usize << n;
    let count = pos + size + GUARD;
    let mut rng = Rng::new(seed ^ ((n as u64) << 40) ^ ((trunc as u64) << 20) ^ delta as u64 ^ ((len64 as u64) << 60));
    let mut input = Buf::random(count, len64, &mut rng);
    // input shapes besides dense: "unit<j>" = every shard of the range but j is zero, "same" = all shards of
    // the range identical (short cuts that depend on the data)
    if let Some(j) = shape.strip_prefix("unit") {
        let j: usize = j.parse().expect("unit index");
        input.zero_shards(pos, pos + j);
        input.zero_shards(pos + j + 1, pos + size);
    } else if shape == "same" {
        for j in 1..size {
            let first = input.shard(pos).to_vec();
            input.shard_mut(pos + j).copy_from_slice(&first);
        }
    }
    if dir == Dir::Ifft {
        input.zero_shards(pos + trunc, pos + size);
    }
    let mut a = input.clone();
    let mut b = input.clone();
    transform::<reed_solomon_simd::engine::Naive>(dir, &mut a, pos, size, trunc, delta);
    let r = guard(|| with_engine!(eng, E => transform::<E>(dir, &mut b, pos, size, trunc, delta)));
    if let Err(p) = r {
        return Err(("no panic".into(), format!("PANIC: {p}")));
    }
    // outside the range: untouched
    for i in (0..pos).chain(pos + size..count) {
        if b.shard(i) != input.shard(i) {
            return Err((format!("shard {i} outside [pos, pos+size) unchanged"), "modified".into()));
        }
        if a.shard(i) != input.shard(i) {
            return Err((format!("shard {i} outside [pos, pos+size) unchanged by naive"), "modified by naive".into()));
        }
    }
    let upto = if dir == Dir::Fft { trunc } else { size };
    for i in 0..upto {
        if a.shard(pos + i) != b.shard(pos + i) {
            return Err((format!("output shard {i} = naive's {}", hex(a.shard(pos + i).as_flattened())), hex(b.shard(pos + i).as_flattened())));
        }
    }
    Ok(())
}

fn check_mul(eng: &str, log_m: u16, len64: usize, seed: u64) -> Result<(), (String, String)> {
    let mut rng = Rng::new(seed ^ 0x77 ^ log_m as u64);
    let input = Buf::random(1, len64, &mut rng);
    let mut a = input.clone();
    let mut b = input.clone();
    mul_blocks::<reed_solomon_simd::engine::Naive>(&mut a.data, log_m);
    if let Err(p) = guard(|| with_engine!(eng, E => mul_blocks::<E>(&mut b.data, log_m))) {
        return Err(("no panic".into(), format!("PANIC: {p}")));
    }
    if a != b {
        return Err((format!("mul(x, {log_m}) = naive's {}", hex(a.data.as_flattened())), hex(b.data.as_flattened())));
    }
    Ok(())
}

pub fn eval_poly_families(thorough: bool) -> Vec<(Vec<usize>, usize)> {
    // (marked positions, truncated_size)
    let mut v: Vec<(Vec<usize>, usize)> = Vec::new();
    let truncs = |end: usize| -> Vec<usize> {
        let mut t = vec![end, end + 1, end.div_ceil(4) * 4, end.div_ceil(16) * 16, end.div_ceil(64) * 64, 65536];
        t.retain(|x| *x <= 65536 && *x >= end);
        t.sort();
        t.dedup();
        t
    };
    let units: Vec<usize> = if thorough { (0..65536).step_by(257).chain([1, 2, 3, 65534, 65535]).collect() } else { vec![0, 1, 2, 3, 255, 256, 4097, 40000, 65534, 65535] };
    for u in units {
        for t in truncs(u + 1) {
            v.push((vec![u], t));
        }
    }
    for a in 0..(if thorough { 24 } else { 8 }) {
        for b in a + 1..(if thorough { 24 } else { 8 }) {
            for t in truncs(b + 1) {
                v.push((vec![a, b], t));
            }
        }
    }
    for t in (1..=(if thorough { 300 } else { 40 })).chain([4096, 65535, 65536]) {
        for tt in truncs(t) {
            v.push(((0..t).collect(), tt));
        }
    }
    // decoder shapes: high rate (k=5,r=3): padding 3..4, some missing
    v.push((vec![1, 3, 4 + 2], 9));
    v.push((vec![0, 2, 3, 5, 8], 9));
    // low rate (k=3,r=5): everything from recovery_end = 4+5 to the end marked
    v.push(((0..2).chain(9..65536).collect(), 65536));
    v.push(((1..3).chain([5]).chain(9..65536).collect(), 65536));
    v
}

fn check_eval_poly(eng: &str, marked: &[usize], trunc: usize) -> Result<(), (String, String)> {
    let a = eval_poly_of::<reed_solomon_simd::engine::Naive>(marked, trunc);
    let b = match guard(|| with_engine!(eng, E => eval_poly_of::<E>(marked, trunc))) {
        Ok(b) => b,
        Err(p) => return Err(("no panic".into(), format!("PANIC: {p}"))),
    };
    if a != b {
        let x = (0..65536).find(|&x| a[x] != b[x]).unwrap();
        return Err((format!("eval_poly out[{x}] = naive's {}", a[x]), format!("{}", b[x])));
    }
    Ok(())
}

fn check_e2e(eng: &str, codec: &str, k: usize, r: usize, data: &str, seed: u64) -> Result<u64, (String, String)> {
    let gn = build_group("naive", codec, k, r, data, 0, seed).map_err(|e| ("naive encode Ok".to_string(), e))?;
    let ge = build_group(eng, codec, k, r, data, seed | 1, seed).map_err(|e| ("encode Ok".to_string(), e))?;
    if gn.recovery != ge.recovery {
        let j = (0..r).find(|&j| gn.recovery[j] != ge.recovery[j]).unwrap();
        return Err((format!("recovery[{j}] = naive's {}", hex(&gn.recovery[j])), hex(&ge.recovery[j])));
    }
    let mut n = 1u64;
    // every received-set with exactly k members
    for mask in subsets_at_least_k(k, r) {
        if mask.count_ones() as usize != k {
            continue;
        }
        let (og, rg) = split_mask(k, r, mask);
        let a = gn.decode(&og, &rg, None);
        let b = ge.decode(&og, &rg, None);
        n += 1;
        if a != b {
            let show = |x: &Result<std::collections::BTreeMap<usize, Vec<u8>>, String>| match x {
                Ok(m) => format!("Ok({:?})", m.iter().map(|(i, s)| (*i, hex(s))).collect::<Vec<_>>()),
                Err(e) => e.clone(),
            };
            return Err((format!("decode(og={},rg={}) = naive's {}", fmt_ranges(&og), fmt_ranges(&rg), show(&a)), show(&b)));
        }
    }
    Ok(n)
}

fn run_case(kv: &Kv) -> Result<u64, (String, String)> {
    let eng = kv.str("eng");
    match kv.str("prim") {
        "fft" | "ifft" => {
            let dir = if kv.str("prim") == "fft" { Dir::Fft } else { Dir::Ifft };
            check_transform(eng, dir, kv.usize("n") as u32, kv.usize("trunc"), kv.usize("pos"), kv.usize("delta"), kv.usize("len64"), kv.u64("seed"), kv.opt("shape").unwrap_or("dense")).map(|_| 1)
        }
        "mul" => check_mul(eng, kv.usize("log_m") as u16, kv.usize("len64"), kv.u64("seed")).map(|_| 1),
        "eval_poly" => check_eval_poly(eng, &parse_ranges(kv.str("marked")), kv.usize("trunc")).map(|_| 1),
        "e2e" => check_e2e(eng, kv.str("codec"), kv.usize("k"), kv.usize("r"), kv.str("data"), kv.u64("seed")),
        p => panic!("prim {p}"),
    }
}

pub fn replay(_ctx: &Ctx, case: &str) -> Result<(), String> {
    let kv = Kv::parse(case)?;
    run_case(&kv).map(|_| ()).map_err(|(e, o)| format!("expected {e}; observed {o}"))
}

pub fn run(ctx: &Ctx, rep: &mut Report) {
    let seed = ctx.seed;
    let engines: Vec<&str> = engines_all().into_iter().filter(|e| *e != "naive").collect();
    rep.rule = "case = (engine, primitive, argument tuple) compared with Naive on the bytes the contract defines, plus guard shards; fft/ifft: every truncated_size in 0..=size for size=2^n, pos in {0,3}, 8 skew offsets, 1-3 blocks; mul: every log_m; eval_poly: unit/pair/prefix/decoder-shape indicator families at every truncated_size class; e2e: encode + every exactly-k received-set; non-trivial = transform case with truncated_size>=1 and size>=2, or any mul/eval_poly/e2e case; distinct by full tuple".into();
    rep.assume("garbage bytes (fft outputs beyond truncated_size; ifft with non-zero inputs beyond truncated_size) are not compared: the Engine contract calls them garbage and Naive/NoSimd legitimately differ there");
    rep.assume("Neon = the repository's engine_neon.rs compiled against an emulation of 7 intrinsics with architectural semantics");

    let mut cases: Vec<Kv> = Vec::new();
    let nmax = if ctx.thorough() { 12 } else { 10 };
    for n in 0..=nmax {
        let size = 1usize << n;
        for &eng in &engines {
            for dir in ["fft", "ifft"] {
                for trunc in 0..=size {
                    // beyond n = 9 the (pos, delta, len) cross product is thinned to a fixed rotation
                    let mut idx = 0usize;
                    for pos in [0usize, 3] {
                        for delta in deltas_for(size) {
                            for len64 in [1usize, 2, 3] {
                                idx += 1;
                                if n >= 8 && (idx + trunc) % (if n >= 10 { 24 } else { 6 }) != 0 {
                                    continue;
                                }
                                cases.push(Kv::new().with("prim", dir).with("eng", eng).with("n", n).with("trunc", trunc).with("pos", pos).with("delta", delta).with("len64", len64).with("seed", seed));
                            }
                        }
                    }
                }
            }
        }
    }
    rep.bound("transform", J::s(format!("n <= {nmax}: every truncated_size; full (pos,delta,len) product for n <= 7, a fixed 1/6 (n=8,9) or 1/24 (n>=10) rotation of it above")));
    // sparse and repetitive inputs (small sizes, every engine)
    for &eng in &engines {
        for n in 1..=5u32 {
            let size = 1usize << n;
            let mut shapes: Vec<String> = if size <= 8 { (0..size).map(|j| format!("unit{j}")).collect() } else { [0, 1, size / 2 - 1, size / 2, size - 1].iter().map(|j| format!("unit{j}")).collect() };
            shapes.push("same".into());
            for dir in ["fft", "ifft"] {
                for shape in &shapes {
                    for trunc in [size, size / 2 + 1] {
                        for (delta, len64) in [(0usize, 1usize), (size, 2)] {
                            cases.push(Kv::new().with("prim", dir).with("eng", eng).with("n", n).with("trunc", trunc).with("pos", 1).with("delta", delta).with("len64", len64).with("seed", seed).with("shape", shape.as_str()));
                        }
                    }
                }
            }
        }
    }
    rep.bound("transform_input_shapes", J::s("n = 1..5: inputs with all shards but one zero (every position for size <= 8) and with all shards identical, truncated sizes {size, size/2+1}"));
    // every size class up to the whole field, at a few truncated sizes and skew offsets (both tiers)
    for &eng in &engines {
        for n in (nmax + 1)..=16u32 {
            let size = 1usize << n;
            for dir in ["fft", "ifft"] {
                for trunc in [1usize, size / 4 + 1, size / 2 - 1, size / 2 + 1, size - 1, size] {
                    for delta in [0usize, size] {
                        if delta + size > 65536 || (!ctx.thorough() && (eng == "naive" || eng == "neonemu") && n >= 14 && delta != 0) {
                            continue;
                        }
                        cases.push(Kv::new().with("prim", dir).with("eng", eng).with("n", n).with("trunc", trunc).with("pos", 0).with("delta", delta).with("len64", 1).with("seed", seed));
                    }
                }
            }
        }
    }
    rep.bound("transform_all_size_classes", J::s(format!("n = {}..16: 6 truncated sizes x skew offsets {{0, size}}", nmax + 1)));
    // long shards: lengths above 64 and 128 blocks with a remainder
    for &eng in &engines {
        for n in [2u32, 3, 5] {
            let size = 1usize << n;
            for dir in ["fft", "ifft"] {
                for len64 in [65usize, 130, 257] {
                    for trunc in [size, size / 2 + 1] {
                        for delta in [0usize, size] {
                            cases.push(Kv::new().with("prim", dir).with("eng", eng).with("n", n).with("trunc", trunc).with("pos", 1).with("delta", delta).with("len64", len64).with("seed", seed));
                        }
                    }
                }
            }
        }
    }
    rep.bound("transform_long_shards", J::s("n in {2,3,5}, shard length 65, 130, 257 blocks"));
    if ctx.thorough() {
        for &eng in &engines {
            for dir in ["fft", "ifft"] {
                for trunc in [0usize, 1, 2, 3, 4, 5, 63, 64, 65, 4096, 32767, 32768, 32769, 65534, 65535, 65536] {
                    cases.push(Kv::new().with("prim", dir).with("eng", eng).with("n", 16).with("trunc", trunc).with("pos", 0).with("delta", 0).with("len64", 1).with("seed", seed));
                }
            }
        }
        rep.bound("transform_n16", J::s("size 65536, 16 truncated sizes, pos 0, skew 0 (decoder shape)"));
    }
    for &eng in &engines {
        for log_m in 0..=65535usize {
            let len64 = 1 + log_m % 3;
            cases.push(Kv::new().with("prim", "mul").with("eng", eng).with("log_m", log_m).with("len64", len64).with("seed", seed));
        }
    }
    let fams = eval_poly_families(ctx.thorough());
    for &eng in &engines {
        for (marked, trunc) in &fams {
            cases.push(Kv::new().with("prim", "eval_poly").with("eng", eng).with("marked", fmt_ranges(marked)).with("trunc", trunc));
        }
    }
    rep.bound("eval_poly_vectors", J::i(fams.len()));
    let kmax = if ctx.thorough() { 5 } else { 4 };
    for &eng in &engines {
        for codec in ["high", "low", "def"] {
            for k in 1..=kmax {
                for r in 1..=kmax {
                    for data in ["dense:64", "dense:128", "dense:192", "dense:66"] {
                        if !ctx.thorough() && (data == "dense:128") {
                            continue;
                        }
                        cases.push(Kv::new().with("prim", "e2e").with("eng", eng).with("codec", codec).with("k", k).with("r", r).with("data", data).with("seed", seed));
                    }
                }
            }
        }
    }
    rep.bound("e2e", J::s(format!("[1..{kmax}]^2 x {{high,low,def}} x dense 64/192/66 (+128 thorough) bytes; encode + every exactly-k received-set")));

    let results: Vec<Result<u64, (String, String)>> = par_for(cases.len(), 64, |i| run_case(&cases[i]));
    let mut per_prim: std::collections::BTreeMap<String, u64> = Default::default();
    for (kv, res) in cases.iter().zip(results) {
        rep.states += 1;
        rep.transitions += 1;
        *per_prim.entry(kv.str("prim").to_string()).or_default() += 1;
        let nontrivial = match kv.str("prim") {
            "fft" | "ifft" => kv.usize("trunc") >= 1 && kv.usize("n") >= 1,
            _ => true,
        };
        if nontrivial {
            rep.distinct += 1;
        }
        match res {
            Ok(n) => {
                rep.evaluations += n;
                rep.traces += n;
            }
            Err((exp, obs)) => {
                let key = match kv.str("prim") {
                    "fft" | "ifft" => format!("{}-{}-n{}-t{}-p{}-d{}-l{}", kv.str("prim"), kv.str("eng"), kv.str("n"), kv.str("trunc"), kv.str("pos"), kv.str("delta"), kv.str("len64")),
                    "mul" => format!("mul-{}-m{}", kv.str("eng"), kv.str("log_m")),
                    "eval_poly" => format!("evalpoly-{}-{}-t{}", kv.str("eng"), kv.str("marked"), kv.str("trunc")),
                    _ => format!("e2e-{}-{}-k{}r{}-{}", kv.str("eng"), kv.str("codec"), kv.str("k"), kv.str("r"), kv.str("data")),
                };
                rep.violation(Violation { key, case: kv.dump(), expected: exp, observed: obs });
            }
        }
    }
    for (p, n) in per_prim {
        rep.extra(&format!("cases_{p}"), J::i(n));
    }
    for i in [0, cases.len() / 3, cases.len() / 2, cases.len() - 1] {
        rep.sample(cases[i].dump());
    }
}
