//! Reference model of the streaming API (spec) and a runner that executes operation histories
//! on the real codec objects, one observation per call.
use std::collections::BTreeSet;

use crate::core::*;
use crate::kv::{fmt_usize, parse_usize};
use crate::with_engine;
use reed_solomon_simd::Error;

// ----------------------------------------------------------------------
// operations

#[derive(Clone, Debug, PartialEq, Eq, Hash, PartialOrd, Ord)]
pub enum Op {
    // encoder
    Add(usize),
    Encode,
    // decoder
    AddO(usize, usize),
    AddR(usize, usize),
    Decode,
    // both
    Reset(usize, usize, usize),
    /// into_parts() then new(kind', k, r, bytes, Some(work))
    Recycle(Kind, usize, usize, usize),
}

impl Op {
    pub fn dump(&self) -> String {
        match self {
            Op::Add(l) => format!("add:{}", fmt_usize(*l)),
            Op::Encode => "enc".into(),
            Op::AddO(i, l) => format!("addo:{}:{}", fmt_usize(*i), fmt_usize(*l)),
            Op::AddR(i, l) => format!("addr:{}:{}", fmt_usize(*i), fmt_usize(*l)),
            Op::Decode => "dec".into(),
            Op::Reset(k, r, b) => format!("reset:{}:{}:{}", fmt_usize(*k), fmt_usize(*r), fmt_usize(*b)),
            Op::Recycle(kind, k, r, b) => format!("rec:{}:{}:{}:{}", kind.name(), k, r, b),
        }
    }
    pub fn parse(s: &str) -> Op {
        let p: Vec<&str> = s.split(':').collect();
        match p[0] {
            "add" => Op::Add(parse_usize(p[1])),
            "enc" => Op::Encode,
            "addo" => Op::AddO(parse_usize(p[1]), parse_usize(p[2])),
            "addr" => Op::AddR(parse_usize(p[1]), parse_usize(p[2])),
            "dec" => Op::Decode,
            "reset" => Op::Reset(parse_usize(p[1]), parse_usize(p[2]), parse_usize(p[3])),
            "rec" => Op::Recycle(Kind::parse(p[1]), parse_usize(p[2]), parse_usize(p[3]), parse_usize(p[4])),
            _ => panic!("op {s}"),
        }
    }
}

pub fn dump_ops(ops: &[Op]) -> String {
    if ops.is_empty() {
        return "-".into();
    }
    ops.iter().map(|o| o.dump()).collect::<Vec<_>>().join(",")
}
pub fn parse_ops(s: &str) -> Vec<Op> {
    if s == "-" || s.is_empty() {
        return vec![];
    }
    s.split(',').map(Op::parse).collect()
}

// ----------------------------------------------------------------------
// observations

#[derive(Clone, Debug, PartialEq)]
pub enum Obs {
    Ok,
    Recovery(Vec<Vec<u8>>),
    Restored(Vec<(usize, Vec<u8>)>),
    Err(Error),
    Panic(String),
    /// the object no longer exists (a failing `new(.., Some(work))` consumed it, or an earlier panic)
    Dead,
}

impl Obs {
    pub fn short(&self) -> String {
        match self {
            Obs::Ok => "Ok".into(),
            Obs::Recovery(v) => format!("Ok(recovery x{} [{}])", v.len(), v.first().map(|s| hex(s)).unwrap_or_default()),
            Obs::Restored(v) => format!("Ok(restored {:?})", v.iter().map(|(i, s)| format!("{i}:{}", hex(s))).collect::<Vec<_>>()),
            Obs::Err(e) => format!("Err({e:?})"),
            Obs::Panic(p) => format!("PANIC({p})"),
            Obs::Dead => "Dead".into(),
        }
    }
}

// ----------------------------------------------------------------------
// spec state

#[derive(Clone, Debug, PartialEq, Eq, Hash, PartialOrd, Ord)]
pub struct Spec {
    pub decoder: bool,
    pub kind: Kind,
    pub k: usize,
    pub r: usize,
    pub b: usize,
    /// encoder: number of originals added
    pub received: usize,
    /// decoder: indexes given
    pub orig: BTreeSet<usize>,
    pub rec: BTreeSet<usize>,
    /// data of the current round (alternates so that consecutive rounds carry different bytes)
    pub parity: u8,
}

pub enum Expect {
    Ok,
    Recovery(Vec<Vec<u8>>),
    Restored(Vec<(usize, Vec<u8>)>),
    ErrAny(Vec<Error>),
}

pub struct Model<'a> {
    pub refm: &'a RefModel,
    pub seed: u64,
}

impl<'a> Model<'a> {
    pub fn originals(&self, s: &Spec) -> Vec<Vec<u8>> {
        let mut d = data_dense(s.k, s.b, self.seed ^ (0x1000 + s.parity as u64));
        // encoders, rounds of even parity: only the first shard is non-zero (data-dependent state such as an
        // "everything so far was zero" flag must survive rejected calls and must not leak into the next round,
        // whose data is dense)
        if !s.decoder && s.parity == 0 {
            for sh in d.iter_mut().skip(1) {
                sh.fill(0);
            }
        }
        d
    }
    pub fn recovery(&self, s: &Spec) -> Vec<Vec<u8>> {
        self.refm.encode(spec_is_high(s.kind, s.k, s.r), s.k, s.r, &self.originals(s))
    }

    pub fn expect(&self, s: &Spec, op: &Op) -> Expect {
        match op {
            Op::Add(len) => {
                let mut e = Vec::new();
                if s.received >= s.k {
                    e.push(Error::TooManyOriginalShards { original_count: s.k });
                }
                if *len != s.b {
                    e.push(Error::DifferentShardSize { shard_bytes: s.b, got: *len });
                }
                if e.is_empty() {
                    Expect::Ok
                } else {
                    Expect::ErrAny(e)
                }
            }
            Op::Encode => {
                if s.received != s.k {
                    Expect::ErrAny(vec![Error::TooFewOriginalShards { original_count: s.k, original_received_count: s.received }])
                } else {
                    Expect::Recovery(self.recovery(s))
                }
            }
            Op::AddO(i, len) => {
                let mut e = Vec::new();
                if *i >= s.k {
                    e.push(Error::InvalidOriginalShardIndex { original_count: s.k, index: *i });
                } else if s.orig.contains(i) {
                    e.push(Error::DuplicateOriginalShardIndex { index: *i });
                }
                if *len != s.b {
                    e.push(Error::DifferentShardSize { shard_bytes: s.b, got: *len });
                }
                if e.is_empty() {
                    Expect::Ok
                } else {
                    Expect::ErrAny(e)
                }
            }
            Op::AddR(j, len) => {
                let mut e = Vec::new();
                if *j >= s.r {
                    e.push(Error::InvalidRecoveryShardIndex { recovery_count: s.r, index: *j });
                } else if s.rec.contains(j) {
                    e.push(Error::DuplicateRecoveryShardIndex { index: *j });
                }
                if *len != s.b {
                    e.push(Error::DifferentShardSize { shard_bytes: s.b, got: *len });
                }
                if e.is_empty() {
                    Expect::Ok
                } else {
                    Expect::ErrAny(e)
                }
            }
            Op::Decode => {
                if s.orig.len() + s.rec.len() < s.k {
                    Expect::ErrAny(vec![Error::NotEnoughShards { original_count: s.k, original_received_count: s.orig.len(), recovery_received_count: s.rec.len() }])
                } else {
                    let o = self.originals(s);
                    Expect::Restored((0..s.k).filter(|i| !s.orig.contains(i)).map(|i| (i, o[i].clone())).collect())
                }
            }
            Op::Reset(k, r, b) => {
                let e = spec_validate(s.kind, *k, *r, *b);
                if e.is_empty() {
                    Expect::Ok
                } else {
                    Expect::ErrAny(e)
                }
            }
            Op::Recycle(kind, k, r, b) => {
                let e = spec_validate(*kind, *k, *r, *b);
                if e.is_empty() {
                    Expect::Ok
                } else {
                    Expect::ErrAny(e)
                }
            }
        }
    }

    /// state change of a *successful* op (a failed op changes nothing)
    pub fn apply(&self, s: &mut Spec, op: &Op) {
        match op {
            Op::Add(_) => s.received += 1,
            Op::Encode | Op::Decode => {
                s.received = 0;
                s.orig.clear();
                s.rec.clear();
                s.parity ^= 1;
            }
            Op::AddO(i, _) => {
                s.orig.insert(*i);
            }
            Op::AddR(j, _) => {
                s.rec.insert(*j);
            }
            Op::Reset(k, r, b) => {
                s.k = *k;
                s.r = *r;
                s.b = *b;
                s.received = 0;
                s.orig.clear();
                s.rec.clear();
                s.parity ^= 1;
            }
            Op::Recycle(kind, k, r, b) => {
                s.kind = *kind;
                s.k = *k;
                s.r = *r;
                s.b = *b;
                s.received = 0;
                s.orig.clear();
                s.rec.clear();
                s.parity ^= 1;
            }
        }
    }

    pub fn conforms(&self, exp: &Expect, obs: &Obs) -> bool {
        match (exp, obs) {
            (Expect::Ok, Obs::Ok) => true,
            (Expect::Recovery(a), Obs::Recovery(b)) => a == b,
            (Expect::Restored(a), Obs::Restored(b)) => a == b,
            (Expect::ErrAny(set), Obs::Err(e)) => set.contains(e),
            _ => false,
        }
    }
    pub fn describe(&self, exp: &Expect) -> String {
        match exp {
            Expect::Ok => "Ok".into(),
            Expect::Recovery(v) => format!("Ok(recovery x{} [{}])", v.len(), v.first().map(|s| hex(s)).unwrap_or_default()),
            Expect::Restored(v) => format!("Ok(restored {:?})", v.iter().map(|(i, s)| format!("{i}:{}", hex(s))).collect::<Vec<_>>()),
            Expect::ErrAny(set) => format!("Err, one of {set:?}"),
        }
    }
}

pub fn spec_new(decoder: bool, kind: Kind, k: usize, r: usize, b: usize) -> Spec {
    Spec { decoder, kind, k, r, b, received: 0, orig: BTreeSet::new(), rec: BTreeSet::new(), parity: 0 }
}

// ----------------------------------------------------------------------
// runner on the real objects

pub struct Run {
    pub obs: Vec<Obs>,
    /// digest of the concrete object after the last op (None when the object is dead)
    pub digest: Option<u64>,
    /// spec state after the history, following the *spec* (successful ops only where spec says Ok)
    pub spec: Spec,
    /// index of first op whose observation does not conform, with expected description
    pub first_bad: Option<(usize, String)>,
}

/// Executes `ops` on a fresh object of (decoder?, kind, engine) constructed with (k, r, b);
/// `soil` as in core::make_encoder.  Every call is guarded against panics.
pub fn run_history(m: &Model, eng: &str, decoder: bool, kind: Kind, k: usize, r: usize, b: usize, soil: Option<u64>, ops: &[Op]) -> Run {
    with_engine!(eng, E => run_history_e::<E>(m, decoder, kind, k, r, b, soil, ops))
}

fn shard_for(len: usize, data: Option<&Vec<u8>>) -> Vec<u8> {
    match data {
        Some(d) if d.len() == len => d.clone(),
        _ => {
            if len > (1 << 23) {
                panic!("refusing to build a {len}-byte shard");
            }
            vec![0x5Au8; len]
        }
    }
}

fn run_history_e<E: Eng>(m: &Model, decoder: bool, kind: Kind, k: usize, r: usize, b: usize, soil: Option<u64>, ops: &[Op]) -> Run {
    let mut spec = spec_new(decoder, kind, k, r, b);
    let mut obs = Vec::with_capacity(ops.len());
    let mut first_bad = None;
    let mut enc: Option<AnyEnc<E>> = None;
    let mut dec: Option<AnyDec<E>> = None;
    let built = guard(|| {
        if decoder {
            make_decoder::<E>(kind, k, r, b, soil).map(|d| dec = Some(d))
        } else {
            make_encoder::<E>(kind, k, r, b, soil).map(|e| enc = Some(e))
        }
    });
    match built {
        Ok(Ok(())) => {}
        other => panic!("initial construction of a valid configuration failed: {other:?}"),
    }
    for (idx, op) in ops.iter().enumerate() {
        let exp = m.expect(&spec, op);
        let o: Obs = if decoder {
            if dec.is_none() {
                Obs::Dead
            } else {
                let res = guard(|| -> Obs {
                    if let Op::Recycle(kind2, k, r, b) = op {
                        let old = dec.take().unwrap();
                        let work = old.into_work().expect("recycle needs a rate codec");
                        return match AnyDec::<E>::new(*kind2, *k, *r, *b, Some(work)) {
                            Ok(nd) => {
                                dec = Some(nd);
                                Obs::Ok
                            }
                            Err(e) => Obs::Err(e),
                        };
                    }
                    let d = dec.as_mut().unwrap();
                    match op {
                        Op::AddO(i, len) => {
                            // a call the model expects to FAIL carries foreign bytes: if the failing call
                            // stores anything, later results change and the twin runs of C07 see it
                            let data = if *i < spec.k && !matches!(exp, Expect::ErrAny(_)) { Some(m.originals(&spec)[*i].clone()) } else { None };
                            match d.add_original(*i, &shard_for(*len, data.as_ref())) {
                                Ok(()) => Obs::Ok,
                                Err(e) => Obs::Err(e),
                            }
                        }
                        Op::AddR(j, len) => {
                            let data = if *j < spec.r && !matches!(exp, Expect::ErrAny(_)) { Some(m.recovery(&spec)[*j].clone()) } else { None };
                            match d.add_recovery(*j, &shard_for(*len, data.as_ref())) {
                                Ok(()) => Obs::Ok,
                                Err(e) => Obs::Err(e),
                            }
                        }
                        Op::Decode => match d.decode() {
                            Ok(res) => Obs::Restored(res.restored_original_iter().map(|(i, s)| (i, s.to_vec())).collect()),
                            Err(e) => Obs::Err(e),
                        },
                        Op::Reset(k, r, b) => match d.reset(*k, *r, *b) {
                            Ok(()) => Obs::Ok,
                            Err(e) => Obs::Err(e),
                        },
                        _ => panic!("encoder op on decoder"),
                    }
                });
                match res {
                    Ok(o) => o,
                    Err(p) => {
                        dec = None;
                        Obs::Panic(p)
                    }
                }
            }
        } else if enc.is_none() {
            Obs::Dead
        } else {
            let res = guard(|| -> Obs {
                if let Op::Recycle(kind2, k, r, b) = op {
                    let old = enc.take().unwrap();
                    let work = old.into_work().expect("recycle needs a rate codec");
                    return match AnyEnc::<E>::new(*kind2, *k, *r, *b, Some(work)) {
                        Ok(ne) => {
                            enc = Some(ne);
                            Obs::Ok
                        }
                        Err(e) => Obs::Err(e),
                    };
                }
                let e = enc.as_mut().unwrap();
                match op {
                    Op::Add(len) => {
                        let data = if spec.received < spec.k && !matches!(exp, Expect::ErrAny(_)) { Some(m.originals(&spec)[spec.received].clone()) } else { None };
                        match e.add(&shard_for(*len, data.as_ref())) {
                            Ok(()) => Obs::Ok,
                            Err(e) => Obs::Err(e),
                        }
                    }
                    Op::Encode => match e.encode() {
                        Ok(res) => Obs::Recovery(res.recovery_iter().map(|s| s.to_vec()).collect()),
                        Err(e) => Obs::Err(e),
                    },
                    Op::Reset(k, r, b) => match e.reset(*k, *r, *b) {
                        Ok(()) => Obs::Ok,
                        Err(e) => Obs::Err(e),
                    },
                    _ => panic!("decoder op on encoder"),
                }
            });
            match res {
                Ok(o) => o,
                Err(p) => {
                    enc = None;
                    Obs::Panic(p)
                }
            }
        };
        let ok = m.conforms(&exp, &o);
        if !ok && first_bad.is_none() {
            first_bad = Some((idx, m.describe(&exp)));
        }
        // the spec advances by what the spec expects (so that later expectations stay meaningful)
        if !matches!(exp, Expect::ErrAny(_)) {
            m.apply(&mut spec, op);
        }
        obs.push(o);
    }
    let digest = if decoder { dec.as_ref().map(|d| d.digest()) } else { enc.as_ref().map(|e| e.digest()) };
    Run { obs, digest, spec, first_bad }
}
