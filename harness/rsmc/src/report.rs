//! Evidence accumulation, violation records, known findings.
use crate::json::J;
use std::collections::{BTreeMap, BTreeSet};
use std::time::Instant;

#[derive(Clone, Debug)]
pub struct Violation {
    /// canonical witness key (stable across runs): used for the replay file name and for matching
    /// against known_findings.json
    pub key: String,
    /// replayable case descriptor, understood by `<module>::replay`
    pub case: String,
    pub expected: String,
    pub observed: String,
}

pub struct Ctx {
    pub property: String,
    pub tier: String,
    pub seed: u64,
    pub build: String,
    pub verif_dir: String,
}
impl Ctx {
    pub fn thorough(&self) -> bool {
        self.tier == "thorough"
    }
}

pub struct Report {
    pub start: Instant,
    pub states: u64,
    pub transitions: u64,
    pub traces: u64,
    pub evaluations: u64,
    pub distinct: u64,
    pub rule: String,
    pub samples: Vec<J>,
    pub exhaustive: bool,
    pub caps: Vec<String>,
    pub assumptions: Vec<String>,
    pub bounds: BTreeMap<String, J>,
    pub extra: BTreeMap<String, J>,
    pub violations: Vec<Violation>,
    pub machinery_errors: Vec<String>,
    viol_keys: BTreeSet<String>,
}

impl Report {
    pub fn new() -> Self {
        Report {
            start: Instant::now(),
            states: 0,
            transitions: 0,
            traces: 0,
            evaluations: 0,
            distinct: 0,
            rule: String::new(),
            samples: Vec::new(),
            exhaustive: true,
            caps: Vec::new(),
            assumptions: Vec::new(),
            bounds: BTreeMap::new(),
            extra: BTreeMap::new(),
            violations: Vec::new(),
            machinery_errors: Vec::new(),
            viol_keys: BTreeSet::new(),
        }
    }
    pub fn sample(&mut self, s: impl Into<String>) {
        if self.samples.len() < 6 {
            self.samples.push(J::Str(s.into()));
        }
    }
    pub fn bound(&mut self, k: &str, v: J) {
        self.bounds.insert(k.to_string(), v);
    }
    pub fn extra(&mut self, k: &str, v: J) {
        self.extra.insert(k.to_string(), v);
    }
    pub fn add_extra_count(&mut self, k: &str, n: u64) {
        let cur = self.extra.get(k).and_then(|j| j.as_i()).unwrap_or(0);
        self.extra.insert(k.to_string(), J::Int(cur + n as i128));
    }
    pub fn cap(&mut self, s: impl Into<String>) {
        self.caps.push(s.into());
        self.exhaustive = false;
    }
    pub fn assume(&mut self, s: impl Into<String>) {
        let s = s.into();
        if !self.assumptions.contains(&s) {
            self.assumptions.push(s);
        }
    }
    /// Records a violation; only the first occurrence of a key is kept, and at most 40 in total
    /// (the count of suppressed ones is reported).
    pub fn violation(&mut self, v: Violation) {
        // a panic raised inside the harness itself is a machinery failure, never a verdict
        if v.observed.contains("panicked at rsmc/src") || v.observed.contains("panicked at /verif/") || v.observed.contains("panicked at gfref/src") {
            if self.machinery_errors.len() < 5 {
                self.machinery_errors.push(format!("harness panic while checking {}: {}", v.key, v.observed));
            }
            return;
        }
        if self.viol_keys.contains(&v.key) {
            return;
        }
        self.viol_keys.insert(v.key.clone());
        if self.violations.len() < 40 {
            self.violations.push(v);
        } else {
            self.add_extra_count("violations_not_listed", 1);
        }
    }
    pub fn violations(&mut self, vs: impl IntoIterator<Item = Violation>) {
        for v in vs {
            self.violation(v);
        }
    }

    pub fn to_json(&self, ctx: &Ctx, unlisted_violations: usize) -> J {
        let mut cov = J::obj();
        cov.set("states", J::i(self.states.max(1)));
        cov.set("transitions", J::i(self.transitions.max(1)));
        cov.set("traces_validated_against_impl", J::i(self.traces));
        cov.set("evaluations", J::i(self.evaluations.max(1)));
        cov.set("distinct_nontrivial", J::i(self.distinct));
        cov.set("rule", J::s(self.rule.clone()));
        cov.set("samples", J::Arr(if self.samples.is_empty() { vec![J::s("(no sample recorded)")] } else { self.samples.clone() }));
        // source ports that had to be left out for this tree (none on the pinned tree) are caps of every check
        let mut caps = self.caps.clone();
        caps.extend(crate::core::port_notes());
        cov.set("exhaustive", J::Bool(self.exhaustive && caps.is_empty()));
        cov.set("caps_hit", J::arr_s(caps.iter().cloned()));
        cov.set("bounds", J::Obj(self.bounds.clone()));
        cov.set("build", J::s(ctx.build.clone()));
        for (k, v) in &self.extra {
            cov.set(k, v.clone());
        }
        let mut e = J::obj();
        e.set("property_id", J::s(ctx.property.clone()));
        e.set("tier", J::s(ctx.tier.clone()));
        e.set("seed", J::i(ctx.seed));
        e.set("level", J::s("model_checking"));
        e.set("coverage", cov);
        e.set("assumptions", J::arr_s(self.assumptions.iter().cloned()));
        e.set("wall_s", J::Num(self.start.elapsed().as_secs_f64()));
        e.set("violations", J::i(unlisted_violations));
        e
    }
}

/// known_findings.json: {"findings":[{"status":"open"|"fixed","property":"C07","key":"...","what":"..."}]}
pub struct Known {
    pub open: Vec<(String, String, String)>, // (property, key, what)
}
impl Known {
    pub fn load(path: &str) -> Known {
        let mut open = Vec::new();
        if let Ok(txt) = std::fs::read_to_string(path) {
            let j = J::parse(&txt).unwrap_or_else(|e| panic!("known_findings.json: {e}"));
            if let Some(J::Arr(a)) = j.get("findings") {
                for f in a {
                    let st = f.get("status").and_then(|x| x.as_str()).unwrap_or("");
                    if st == "open" {
                        open.push((
                            f.get("property").and_then(|x| x.as_str()).unwrap_or("").to_string(),
                            f.get("key").and_then(|x| x.as_str()).unwrap_or("").to_string(),
                            f.get("what").and_then(|x| x.as_str()).unwrap_or("").to_string(),
                        ));
                    }
                }
            }
        }
        Known { open }
    }
    pub fn matches(&self, property: &str, key: &str) -> Option<&str> {
        self.open.iter().find(|(p, k, _)| p == property && k == key).map(|(_, _, w)| w.as_str())
    }
}

pub fn sanitize(key: &str) -> String {
    key.chars().map(|c| if c.is_ascii_alphanumeric() || c == '-' || c == '_' || c == '.' { c } else { '_' }).take(150).collect()
}
