//! Round-trip helpers shared by several properties: a "group" is one configuration with its data
//! encoded once by the real encoder; cases are received-sets decoded by the real decoder.
use std::collections::BTreeMap;

use crate::core::*;
use crate::kv::*;
use crate::with_engine;

pub struct Group {
    pub eng: String,
    /// "rs" | "def" | "high" | "low" | "oneshot"
    pub codec: String,
    pub k: usize,
    pub r: usize,
    pub bytes: usize,
    pub data: String,
    pub soil: u64,
    pub seed: u64,
    pub originals: Vec<Vec<u8>>,
    pub recovery: Vec<Vec<u8>>,
}

pub fn codec_kind(codec: &str) -> Kind {
    match codec {
        "oneshot" => Kind::Rs,
        c => Kind::parse(c),
    }
}

/// data tags: "basis" (size 32k), "dense:<bytes>", "ones:<bytes>", "zero:<bytes>", "special:<bytes>"
pub fn make_data(tag: &str, k: usize, seed: u64) -> (usize, Vec<Vec<u8>>) {
    if tag == "basis" {
        return data_basis(k);
    }
    let (name, b) = tag.split_once(':').unwrap_or_else(|| panic!("data tag {tag}"));
    let bytes: usize = b.parse().expect("bytes");
    match name {
        "dense" => (bytes, data_dense(k, bytes, seed)),
        "dense2" => (bytes, data_dense(k, bytes, seed ^ 0xABCD_EF01)),
        "ones" => (bytes, data_ones(k, bytes)),
        "zero" => (bytes, vec![vec![0u8; bytes]; k]),
        "special" => (bytes, data_special(k, bytes)),
        _ => panic!("data tag {tag}"),
    }
}

fn soil_opt(soil: u64) -> Option<u64> {
    if soil == 0 {
        None
    } else {
        Some(soil)
    }
}

pub fn real_encode(eng: &str, codec: &str, k: usize, r: usize, bytes: usize, originals: &[Vec<u8>], soil: u64) -> Result<Vec<Vec<u8>>, String> {
    let res = guard(|| {
        if codec == "oneshot" {
            reed_solomon_simd::encode(k, r, originals)
        } else {
            let kind = codec_kind(codec);
            with_engine!(eng, E => encode_with::<E>(kind, k, r, bytes, originals, soil_opt(soil)))
        }
    });
    match res {
        Ok(Ok(v)) => Ok(v),
        Ok(Err(e)) => Err(format!("Err({e:?})")),
        Err(p) => Err(format!("PANIC: {p}")),
    }
}

pub fn build_group(eng: &str, codec: &str, k: usize, r: usize, data: &str, soil: u64, seed: u64) -> Result<Group, String> {
    let (bytes, originals) = make_data(data, k, seed);
    let recovery = real_encode(eng, codec, k, r, bytes, &originals, soil)?;
    if recovery.len() != r {
        return Err(format!("encode returned {} recovery shards, expected {r}", recovery.len()));
    }
    for (j, s) in recovery.iter().enumerate() {
        if s.len() != bytes {
            return Err(format!("recovery shard {j} has length {}, expected {bytes}", s.len()));
        }
    }
    Ok(Group { eng: eng.to_string(), codec: codec.to_string(), k, r, bytes, data: data.to_string(), soil, seed, originals, recovery })
}

impl Group {
    pub fn kv(&self) -> Kv {
        Kv::new()
            .with("eng", &self.eng)
            .with("codec", &self.codec)
            .with("k", self.k)
            .with("r", self.r)
            .with("data", &self.data)
            .with("soil", self.soil)
            .with("seed", self.seed)
    }
    pub fn from_kv(kv: &Kv) -> Result<Group, String> {
        build_group(kv.str("eng"), kv.str("codec"), kv.usize("k"), kv.usize("r"), kv.str("data"), kv.u64("soil"), kv.u64("seed"))
    }

    /// Decode giving originals `og` and recovery `rg` (in that add order: originals first unless
    /// `order` lists an explicit interleaving of shard ids 0..k-1 = originals, k.. = recovery).
    pub fn decode(&self, og: &[usize], rg: &[usize], order: Option<&[usize]>) -> Result<BTreeMap<usize, Vec<u8>>, String> {
        let res = guard(|| -> Result<BTreeMap<usize, Vec<u8>>, reed_solomon_simd::Error> {
            if self.codec == "oneshot" {
                let o: Vec<(usize, &[u8])> = og.iter().map(|&i| (i, self.originals[i].as_slice())).collect();
                let rr: Vec<(usize, &[u8])> = rg.iter().map(|&j| (j, self.recovery[j].as_slice())).collect();
                let m = reed_solomon_simd::decode(self.k, self.r, o, rr)?;
                Ok(m.into_iter().collect())
            } else {
                let kind = codec_kind(&self.codec);
                with_engine!(self.eng.as_str(), E => {
                    let mut dec = make_decoder::<E>(kind, self.k, self.r, self.bytes, soil_opt(self.soil))?;
                    match order {
                        None => {
                            for &i in og { dec.add_original(i, &self.originals[i])?; }
                            for &j in rg { dec.add_recovery(j, &self.recovery[j])?; }
                        }
                        Some(ord) => {
                            for &s in ord {
                                if s < self.k { dec.add_original(s, &self.originals[s])?; }
                                else { dec.add_recovery(s - self.k, &self.recovery[s - self.k])?; }
                            }
                        }
                    }
                    let res = dec.decode()?;
                    Ok(res.restored_original_iter().map(|(i, s)| (i, s.to_vec())).collect())
                })
            }
        });
        match res {
            Ok(Ok(v)) => Ok(v),
            Ok(Err(e)) => Err(format!("Err({e:?})")),
            Err(p) => Err(format!("PANIC: {p}")),
        }
    }

    /// Oracle of C01: exactly the originals not given, byte for byte.
    pub fn check_restored(&self, og: &[usize], restored: &BTreeMap<usize, Vec<u8>>) -> Result<(), String> {
        let given: std::collections::BTreeSet<usize> = og.iter().copied().collect();
        let want: Vec<usize> = (0..self.k).filter(|i| !given.contains(i)).collect();
        let got: Vec<usize> = restored.keys().copied().collect();
        if want != got {
            return Err(format!("restored index set {} but missing originals are {}", fmt_ranges(&got), fmt_ranges(&want)));
        }
        for (i, s) in restored {
            if s != &self.originals[*i] {
                let pos = s.iter().zip(self.originals[*i].iter()).position(|(a, b)| a != b);
                return Err(format!(
                    "restored original {i} differs from the original (len {} vs {}, first diff at byte {:?}): got {} want {}",
                    s.len(),
                    self.originals[*i].len(),
                    pos,
                    hex(s),
                    hex(&self.originals[*i])
                ));
            }
        }
        Ok(())
    }
}

/// All subsets (as (og, rg)) of the n = k + r shards with at least k members, simplest first
/// (fewest shards, then numeric order of the mask).
pub fn subsets_at_least_k(k: usize, r: usize) -> Vec<u32> {
    let n = k + r;
    assert!(n <= 24);
    let mut v: Vec<u32> = (0u32..(1u32 << n)).filter(|m| m.count_ones() as usize >= k).collect();
    v.sort_by_key(|m| (m.count_ones(), *m));
    v
}

pub fn split_mask(k: usize, r: usize, mask: u32) -> (Vec<usize>, Vec<usize>) {
    let og = (0..k).filter(|i| mask >> i & 1 != 0).collect();
    let rg = (0..r).filter(|j| mask >> (k + j) & 1 != 0).collect();
    (og, rg)
}
