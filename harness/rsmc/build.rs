//! Build-time source ports (no repository change):
//!  * engine_neon.rs        -> Neon engine over emulated intrinsics (`NeonEmu`)
//!  * engine_default.rs     -> the AArch64 arm of `DefaultEngine` over `NeonEmu` (C14)
//! The substitutions are purely textual; if an expected anchor is missing the build fails
//! loudly (machinery error), it never silently checks something else.
use std::{env, fs, path::PathBuf};

fn main() {
    let repo = env::var("VERIF_REPO").unwrap_or_else(|_| "/repo".to_string());
    let out = PathBuf::from(env::var("OUT_DIR").unwrap());
    println!("cargo:rerun-if-env-changed=VERIF_REPO");
    println!("cargo:rerun-if-changed={repo}/src/engine/engine_neon.rs");
    println!("cargo:rerun-if-changed={repo}/src/engine/engine_default.rs");

    // ---- Neon
    let src = fs::read_to_string(format!("{repo}/src/engine/engine_neon.rs")).expect("engine_neon.rs");
    let mut s = src.clone();
    let must = |s: &str, pat: &str| assert!(s.contains(pat), "port anchor missing: {pat}");
    must(&s, "use crate::engine::{");
    must(&s, "use std::arch::aarch64::*;");
    must(&s, "#[target_feature(enable = \"neon\")]");
    s = s.replace("use crate::engine::", "use reed_solomon_simd::engine::");
    s = s.replace("crate::engine::", "reed_solomon_simd::engine::");
    s = s.replace("crate::verif_hooks::", "reed_solomon_simd::verif_hooks::");
    s = s.replace("use std::arch::aarch64::*;", "use crate::neon_emu::*;");
    s = s.replace("#[target_feature(enable = \"neon\")]", "");
    assert!(!s.contains("std::arch"), "unported std::arch use in engine_neon.rs");
    fs::write(out.join("engine_neon_port.rs"), s).unwrap();

    // ---- DefaultEngine, aarch64 arm
    let src = fs::read_to_string(format!("{repo}/src/engine/engine_default.rs")).expect("engine_default.rs");
    let mut s = src.clone();
    must(&s, "#[cfg(target_arch = \"aarch64\")]");
    must(&s, "std::arch::is_aarch64_feature_detected!(\"neon\")");
    // switch arms: x86 off, aarch64 on
    s = s.replace("any(target_arch = \"x86\", target_arch = \"x86_64\")", "any()");
    s = s.replace("#[cfg(target_arch = \"aarch64\")]", "#[cfg(all())]");
    s = s.replace(
        "std::arch::is_aarch64_feature_detected!(\"neon\")",
        "crate::neon_emu::neon_detected()",
    );
    s = s.replace("use crate::engine::Neon;", "use crate::neon_port::Neon;");
    s = s.replace("use crate::engine::{", "use reed_solomon_simd::engine::{");
    s = s.replace("crate::engine::", "reed_solomon_simd::engine::");
    s = s.replace("crate::verif_hooks::", "reed_solomon_simd::verif_hooks::");
    assert!(!s.contains("std::arch"), "unported std::arch use in engine_default.rs");
    fs::write(out.join("engine_default_aarch64_port.rs"), s).unwrap();
}
