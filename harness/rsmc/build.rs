//! Build-time source ports (no repository change):
//!  * engine_neon.rs        -> Neon engine over emulated intrinsics (`NeonEmu`)
//!  * engine_default.rs     -> the AArch64 arm of `DefaultEngine` over `NeonEmu` (C14)
//! The substitutions are purely textual. If an expected anchor is missing (the file was restructured) or
//! VERIF_NO_NEON_PORT=1 is set (the driver sets it after the ported source failed to compile), the
//! port is left out and the cfg `no_neon_port` / `no_aarch64_port` is set: the explorers then run without
//! the emulated Neon engine / the AArch64 selection arm and say so in every evidence file - the other
//! engines are still decided. It never silently checks something else.
use std::{env, fs, path::PathBuf};

fn main() {
    let repo = env::var("VERIF_REPO").unwrap_or_else(|_| "/repo".to_string());
    let out = PathBuf::from(env::var("OUT_DIR").unwrap());
    println!("cargo:rerun-if-env-changed=VERIF_REPO");
    println!("cargo:rerun-if-changed={repo}/src/engine/engine_neon.rs");
    println!("cargo:rerun-if-changed={repo}/src/engine/engine_default.rs");

    println!("cargo:rerun-if-env-changed=VERIF_NO_NEON_PORT");
    println!("cargo::rustc-check-cfg=cfg(no_neon_port)");
    println!("cargo::rustc-check-cfg=cfg(no_aarch64_port)");
    let forced_off = env::var("VERIF_NO_NEON_PORT").map(|v| v == "1").unwrap_or(false);
    let missing = |s: &str, pats: &[&str]| -> Option<String> { pats.iter().find(|p| !s.contains(**p)).map(|p| p.to_string()) };

    // ---- Neon
    let src = fs::read_to_string(format!("{repo}/src/engine/engine_neon.rs")).unwrap_or_default();
    let mut s = src.clone();
    let neon_problem = if forced_off {
        Some("VERIF_NO_NEON_PORT=1 (the ported source did not compile against the emulated intrinsics)".to_string())
    } else {
        missing(&s, &["use crate::engine::{", "use std::arch::aarch64::*;", "#[target_feature(enable = \"neon\")]"]).map(|p| format!("port anchor missing in engine_neon.rs: {p}"))
    };
    s = s.replace("use crate::engine::", "use reed_solomon_simd::engine::");
    s = s.replace("crate::engine::", "reed_solomon_simd::engine::");
    s = s.replace("crate::verif_hooks::", "reed_solomon_simd::verif_hooks::");
    s = s.replace("use std::arch::aarch64::*;", "use crate::neon_emu::*;");
    s = s.replace("#[target_feature(enable = \"neon\")]", "");
    let neon_problem = neon_problem.or_else(|| if s.contains("std::arch") { Some("unported std::arch use in engine_neon.rs".to_string()) } else { None });
    if let Some(p) = &neon_problem {
        println!("cargo:rustc-cfg=no_neon_port");
        println!("cargo:rustc-env=VERIF_NEON_PORT_NOTE={p}");
        println!("cargo:warning=Neon emulation port left out: {p}");
        fs::write(out.join("engine_neon_port.rs"), "").unwrap();
    } else {
        println!("cargo:rustc-env=VERIF_NEON_PORT_NOTE=");
        fs::write(out.join("engine_neon_port.rs"), s).unwrap();
    }

    // ---- DefaultEngine, aarch64 arm
    let src = fs::read_to_string(format!("{repo}/src/engine/engine_default.rs")).unwrap_or_default();
    let mut s = src.clone();
    println!("cargo:rerun-if-env-changed=VERIF_NO_AARCH64_PORT");
    let a_forced = env::var("VERIF_NO_AARCH64_PORT").map(|v| v == "1").unwrap_or(false);
    let a_problem = neon_problem.clone().or_else(|| if a_forced { Some("VERIF_NO_AARCH64_PORT=1 (the ported source did not compile)".to_string()) } else { None }).or_else(|| missing(&s, &["#[cfg(target_arch = \"aarch64\")]", "std::arch::is_aarch64_feature_detected!(\"neon\")"]).map(|p| format!("port anchor missing in engine_default.rs: {p}")));
    // switch arms: x86 off, aarch64 on
    s = s.replace("any(target_arch = \"x86\", target_arch = \"x86_64\")", "any()");
    s = s.replace("#[cfg(target_arch = \"aarch64\")]", "#[cfg(all())]");
    s = s.replace(
        "std::arch::is_aarch64_feature_detected!(\"neon\")",
        "crate::neon_emu::neon_detected()",
    );
    s = s.replace("use crate::engine::Neon;", "use crate::neon_port::Neon;");
    s = s.replace("use crate::engine::{", "use reed_solomon_simd::engine::{");
    s = s.replace("crate::engine::", "reed_solomon_simd::engine::");
    s = s.replace("crate::verif_hooks::", "reed_solomon_simd::verif_hooks::");
    let a_problem = a_problem.or_else(|| if s.contains("std::arch") { Some("unported std::arch use in engine_default.rs".to_string()) } else { None });
    if let Some(p) = &a_problem {
        println!("cargo:rustc-cfg=no_aarch64_port");
        println!("cargo:rustc-env=VERIF_AARCH64_PORT_NOTE={p}");
        println!("cargo:warning=AArch64 arm of DefaultEngine left out: {p}");
        fs::write(out.join("engine_default_aarch64_port.rs"), "").unwrap();
    } else {
        println!("cargo:rustc-env=VERIF_AARCH64_PORT_NOTE=");
        fs::write(out.join("engine_default_aarch64_port.rs"), s).unwrap();
    }
}
