//! C16 companion (NOT exhaustive: one free-running schedule per run): thread bodies like those of
//! the conc scenarios, on real std threads under miri. Miri's data-race detector sees
//! unsynchronised accesses (static mut, UnsafeCell) that a cooperative scheduler cannot, because
//! they have no scheduling point. Naive engine only (the multiplication tables of the other engines
//! take minutes to build under an interpreter; SIMD intrinsics are not interpreted).
use reed_solomon_simd::engine::Naive;
use reed_solomon_simd::rate::*;

fn orig(tid: usize) -> [[u8; 64]; 3] {
    let mut o = [[0u8; 64]; 3];
    for (i, sh) in o.iter_mut().enumerate() {
        for (j, b) in sh.iter_mut().enumerate() {
            *b = (0x11 + 0x61 * i + 0x29 * tid + 7 * j * (tid + 1)) as u8;
        }
    }
    o
}

fn round(tid: usize) {
    let o = orig(tid);
    let keep = tid % 3;
    let mut enc = HighRateEncoder::new(3, 2, 64, Naive::new(), None).unwrap();
    for s in &o {
        enc.add_original_shard(s).unwrap();
    }
    let rec: Vec<Vec<u8>> = enc.encode().unwrap().recovery_iter().map(|s| s.to_vec()).collect();
    let mut dec = HighRateDecoder::new(3, 2, 64, Naive::new(), None).unwrap();
    dec.add_original_shard(keep, o[keep]).unwrap();
    dec.add_recovery_shard(0, &rec[0]).unwrap();
    dec.add_recovery_shard(1, &rec[1]).unwrap();
    let res = dec.decode().unwrap();
    let got: Vec<Vec<u8>> = res.restored_original_iter().map(|(_, s)| s.to_vec()).collect();
    let want: Vec<Vec<u8>> = (0..3).filter(|i| *i != keep).map(|i| o[i].to_vec()).collect();
    assert_eq!(got, want, "thread {tid}: decode restored wrong data");
}

fn main() {
    let hs: Vec<_> = (0..2).map(|t| std::thread::spawn(move || round(t))).collect();
    for h in hs {
        h.join().unwrap();
    }
    println!("MIRI-COMPANION-OK 2 threads, racing first use of EXP_LOG/SKEW/LOG_WALSH, results correct");
}
