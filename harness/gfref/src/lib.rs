//! Independent reference model of the mathematics behind reed-solomon-simd.
//!
//! Built from nothing but the two published constants: the field polynomial
//! `0x1002D` of GF(2^16) and the 16 Cantor-basis words.  No table, transform or
//! helper of the crate under verification is used (this crate does not even
//! depend on it).
//!
//! Representation.  A *symbol* is a `u16` index `x`; it denotes the field element
//! `phi(x) = XOR of CANTOR[b] over the set bits b of x` (an element of
//! GF(2)[t]/(0x1002D) in the polynomial basis).  `phi` is GF(2)-linear and
//! bijective, so symbols with `^` as addition and `mul` below as multiplication are
//! a field isomorphic to GF(2^16); the evaluation points of the code are the
//! symbols `0, 1, 2, ...` themselves.

pub const POLY: u32 = 0x1002D;
pub const CANTOR: [u16; 16] = [
    0x0001, 0xACCA, 0x3C0E, 0x163E, 0xC582, 0xED2E, 0x914C, 0x4012, 0x6C98, 0x10D8, 0x6A72, 0xB900,
    0xFDB8, 0xFB34, 0xFF38, 0x991E,
];
pub const ORDER: usize = 65536;
pub const MODULUS: u16 = 65535;

/// Carry-less multiplication of two polynomial-basis elements, reduced by POLY.
/// Shift-and-add; the definition of the field, deliberately table free.
pub fn clmul_reduce(a: u16, b: u16) -> u16 {
    let mut acc: u32 = 0;
    let mut a = a as u32;
    let mut b = b;
    while b != 0 {
        if b & 1 != 0 {
            acc ^= a;
        }
        b >>= 1;
        a <<= 1;
        if a & 0x10000 != 0 {
            a ^= POLY;
        }
    }
    acc as u16
}

/// symbol index -> polynomial-basis element
pub fn phi(x: u16) -> u16 {
    let mut e = 0u16;
    for b in 0..16 {
        if x >> b & 1 != 0 {
            e ^= CANTOR[b];
        }
    }
    e
}

/// The field, with derived (own) look-up tables to make the reference fast enough.
/// Every table is computed from `clmul_reduce` and `phi` only and is cross-checked
/// by `self_check`.
pub struct Field {
    /// phi^-1
    pub phi_inv: Vec<u16>,
    /// exp[l] = symbol s with phi(s) = t^l (t = polynomial-basis element 2), l in 0..65535
    pub exp: Vec<u16>,
    /// log[s] = l with exp[l] = s, for s != 0; log[0] = 65535 by convention
    pub log: Vec<u16>,
}

impl Field {
    pub fn new() -> Self {
        let mut phi_inv = vec![0u16; ORDER];
        let mut seen = vec![false; ORDER];
        for x in 0..ORDER {
            let e = phi(x as u16) as usize;
            assert!(!seen[e], "Cantor basis is not a basis");
            seen[e] = true;
            phi_inv[e] = x as u16;
        }
        let mut exp = vec![0u16; ORDER];
        let mut log = vec![0u16; ORDER];
        let mut e: u16 = 1; // t^0
        let mut seen = vec![false; ORDER];
        for l in 0..65535usize {
            let s = phi_inv[e as usize];
            assert!(!seen[s as usize], "t is not a generator");
            seen[s as usize] = true;
            exp[l] = s;
            log[s as usize] = l as u16;
            e = clmul_reduce(e, 2);
        }
        assert_eq!(e, 1);
        exp[65535] = exp[0];
        log[0] = MODULUS;
        Field { phi_inv, exp, log }
    }

    /// Multiplication by definition (slow): through the polynomial basis.
    pub fn mul_def(&self, a: u16, b: u16) -> u16 {
        self.phi_inv[clmul_reduce(phi(a), phi(b)) as usize]
    }

    #[inline]
    pub fn mul(&self, a: u16, b: u16) -> u16 {
        if a == 0 || b == 0 {
            return 0;
        }
        let l = self.log[a as usize] as u32 + self.log[b as usize] as u32;
        self.exp[(l % 65535) as usize]
    }

    #[inline]
    pub fn inv(&self, a: u16) -> u16 {
        assert!(a != 0, "division by zero in reference");
        let l = self.log[a as usize] as u32;
        self.exp[((65535 - l) % 65535) as usize]
    }

    #[inline]
    pub fn div(&self, a: u16, b: u16) -> u16 {
        self.mul(a, self.inv(b))
    }

    /// symbol * g^log_m, g = the generator the crate's logarithms refer to (t).
    #[inline]
    pub fn mul_exp(&self, a: u16, log_m: u16) -> u16 {
        if a == 0 {
            return 0;
        }
        let l = self.log[a as usize] as u32 + log_m as u32;
        self.exp[(l % 65535) as usize]
    }

    /// One symbol `one` with phi(one) = 1.
    pub fn one(&self) -> u16 {
        self.exp[0]
    }

    /// Exhaustive-ish self check of the derived tables against the definitions.
    /// `full`: all 2^32 products would take minutes; we check every product with one
    /// operand in a 16-element basis (which determines multiplication by bilinearity,
    /// checked on a further sample grid), plus every inverse.
    pub fn self_check(&self, full: bool) -> u64 {
        let mut n = 0u64;
        assert_eq!(phi(self.one()), 1);
        for a in 0..ORDER {
            let a = a as u16;
            for b in 0..16 {
                let bb = 1u16 << b;
                assert_eq!(self.mul(a, bb), self.mul_def(a, bb));
                n += 1;
            }
            if a != 0 {
                assert_eq!(self.mul_def(a, self.inv(a)), self.one());
                n += 1;
            }
        }
        let step = if full { 1 } else { 257 };
        let mut a = 0usize;
        while a < ORDER {
            let mut b = 0usize;
            while b < ORDER {
                assert_eq!(self.mul(a as u16, b as u16), self.mul_def(a as u16, b as u16));
                n += 1;
                b += if full { 251 } else { 509 };
            }
            a += step;
        }
        n
    }

    // ------------------------------------------------------------------
    // polynomials of the code

    /// s_m(x) = prod_{t < m} (x ^ t): vanishing polynomial of the points 0..m-1.
    pub fn vanish(&self, m: usize, x: u16) -> u16 {
        let mut p = self.one();
        for t in 0..m {
            p = self.mul(p, x ^ (t as u16));
            if p == 0 {
                break;
            }
        }
        p
    }

    /// W_m = prod_{t = 1}^{m-1} t
    pub fn w(&self, m: usize) -> u16 {
        let mut p = self.one();
        for t in 1..m {
            p = self.mul(p, t as u16);
        }
        p
    }

    /// The closed-form generator matrix of property C02, row-major `g[j][i]`,
    /// `j` recovery index, `i` original index.
    pub fn generator(&self, high_rate: bool, k: usize, r: usize) -> Vec<Vec<u16>> {
        if high_rate {
            let m = r.next_power_of_two();
            let wm = self.w(m);
            let s: Vec<u16> = (0..k).map(|i| self.vanish(m, (m + i) as u16)).collect();
            (0..r)
                .map(|j| {
                    (0..k)
                        .map(|i| self.div(s[i], self.mul(wm, (j ^ (m + i)) as u16)))
                        .collect()
                })
                .collect()
        } else {
            let m = k.next_power_of_two();
            let wm = self.w(m);
            (0..r)
                .map(|j| {
                    let s = self.vanish(m, (m + j) as u16);
                    (0..k)
                        .map(|i| self.div(s, self.mul(wm, ((m + j) ^ i) as u16)))
                        .collect()
                })
                .collect()
        }
    }

    /// One row of the generator (for configurations whose full matrix is too big to hold).
    pub fn generator_row(&self, high_rate: bool, k: usize, r: usize, j: usize, svals: &[u16], wm: u16) -> Vec<u16> {
        if high_rate {
            let m = r.next_power_of_two();
            (0..k).map(|i| self.div(svals[i], self.mul(wm, (j ^ (m + i)) as u16))).collect()
        } else {
            let m = k.next_power_of_two();
            let s = svals[j];
            (0..k).map(|i| self.div(s, self.mul(wm, ((m + j) ^ i) as u16))).collect()
        }
    }

    /// Per-configuration constants for `generator_row`: (svals, W_m).
    /// Uses the linearised structure only through plain products; O(len * m) multiplications
    /// would be too slow for the envelope configurations, so the vanishing polynomial of the
    /// 2^b points is evaluated by the recurrence s_{2m}(x) = s_m(x) * s_m(x ^ m), which is the
    /// same product re-associated (checked against `vanish` in `self_check_code`).
    pub fn generator_consts(&self, high_rate: bool, k: usize, r: usize) -> (Vec<u16>, u16) {
        let (m, n) = if high_rate { (r.next_power_of_two(), k) } else { (k.next_power_of_two(), r) };
        let svals = (0..n).map(|i| self.vanish_pow2(m, (m + i) as u16)).collect();
        (svals, self.w(m))
    }

    /// s_m(x) for m a power of two, by s_{2h}(x) = s_h(x) * s_h(x ^ h).
    pub fn vanish_pow2(&self, m: usize, x: u16) -> u16 {
        assert!(m.is_power_of_two());
        // memo-free recursion has 2^log2(m) leaves = m multiplications, no gain; instead use
        // that s_h is GF(2)-linear (a linearised polynomial): s_h(x ^ h) = s_h(x) ^ s_h(h).
        // That linearity is itself verified exhaustively for small h in self_check_code.
        // s_1(x) = x.
        let mut s_x = x; // s_h(x)
        let mut h = 1usize;
        let mut s_h_tab: Vec<u16> = Vec::new(); // s_h(h) for successive h
        while h < m {
            // need s_h(h): compute by the same recurrence from scratch (log m steps)
            let shh = self.vanish_lin(h, h as u16, &s_h_tab);
            s_h_tab.push(shh);
            s_x = self.mul(s_x, s_x ^ shh);
            h <<= 1;
        }
        s_x
    }

    fn vanish_lin(&self, h: usize, x: u16, tab: &[u16]) -> u16 {
        // s_h(x) using already known s_g(g) for g < h
        let mut s = x;
        let mut g = 1usize;
        let mut idx = 0;
        while g < h {
            s = self.mul(s, s ^ tab[idx]);
            g <<= 1;
            idx += 1;
        }
        s
    }

    /// Normalised subspace polynomial of LCH: shat_b(x) = s_{2^b}(x) / s_{2^b}(2^b).
    pub fn shat(&self, b: usize, x: u16) -> u16 {
        let m = 1usize << b;
        self.div(self.vanish_pow2(m, x), self.vanish_pow2(m, m as u16))
    }

    /// LCH basis polynomial X_j(x) = prod_{bit b of j} shat_b(x).
    pub fn lch_basis(&self, j: usize, x: u16) -> u16 {
        let mut p = self.one();
        let mut b = 0;
        let mut jj = j;
        while jj != 0 {
            if jj & 1 != 0 {
                p = self.mul(p, self.shat(b, x));
            }
            jj >>= 1;
            b += 1;
        }
        p
    }

    /// Checks of the code-level helpers against the plain definitions.
    pub fn self_check_code(&self) -> u64 {
        let mut n = 0u64;
        for b in 0..9 {
            let m = 1usize << b;
            for x in (0..ORDER).step_by(97) {
                assert_eq!(self.vanish_pow2(m, x as u16), self.vanish(m, x as u16), "vanish_pow2 m={m} x={x}");
                n += 1;
            }
        }
        // bigger m on a few points
        for &m in &[1024usize, 4096, 32768] {
            for &x in &[0u16, 1, 1023, 1024, 4097, 40000, 65535] {
                assert_eq!(self.vanish_pow2(m, x), self.vanish(m, x));
                n += 1;
            }
        }
        n
    }

    /// MDS check of [I; G] for small (k, r): every k x k minor non-singular <=> every square
    /// submatrix of G non-singular.  Done by brute-force determinants (Gaussian elimination).
    /// Returns number of submatrices checked.
    pub fn check_mds(&self, g: &[Vec<u16>]) -> Result<u64, String> {
        let r = g.len();
        let k = g[0].len();
        let mut n = 0u64;
        for rows in 1u32..(1 << r) {
            let rs: Vec<usize> = (0..r).filter(|j| rows >> j & 1 != 0).collect();
            for cols in 1u32..(1 << k) {
                if cols.count_ones() != rows.count_ones() {
                    continue;
                }
                let cs: Vec<usize> = (0..k).filter(|i| cols >> i & 1 != 0).collect();
                let mut m: Vec<Vec<u16>> = rs.iter().map(|&j| cs.iter().map(|&i| g[j][i]).collect()).collect();
                if !self.nonsingular(&mut m) {
                    return Err(format!("singular minor rows={rs:?} cols={cs:?}"));
                }
                n += 1;
            }
        }
        Ok(n)
    }

    fn nonsingular(&self, m: &mut Vec<Vec<u16>>) -> bool {
        let n = m.len();
        for c in 0..n {
            let Some(p) = (c..n).find(|&r| m[r][c] != 0) else { return false };
            m.swap(c, p);
            let inv = self.inv(m[c][c]);
            for r in c + 1..n {
                if m[r][c] != 0 {
                    let f = self.mul(m[r][c], inv);
                    for cc in c..n {
                        let t = self.mul(f, m[c][cc]);
                        m[r][cc] ^= t;
                    }
                }
            }
        }
        true
    }

    // ------------------------------------------------------------------
    // reference encode on symbols

    /// recovery symbols: out[j][s] = sum_i g[j][i] * data[i][s]
    pub fn encode_symbols(&self, g: &[Vec<u16>], data: &[Vec<u16>]) -> Vec<Vec<u16>> {
        let slots = data[0].len();
        g.iter()
            .map(|row| {
                let mut out = vec![0u16; slots];
                for (i, gi) in row.iter().enumerate() {
                    if *gi == 0 {
                        continue;
                    }
                    for s in 0..slots {
                        out[s] ^= self.mul(*gi, data[i][s]);
                    }
                }
                out
            })
            .collect()
    }

    // ------------------------------------------------------------------
    // reference transforms (by definition, O(n^2))

    /// values[i] = sum_j coeff[j] * X_j(point0 + i), i < count
    pub fn lch_eval(&self, coeff: &[u16], point0: usize, count: usize) -> Vec<u16> {
        let n = coeff.len();
        let bits = n.trailing_zeros() as usize;
        assert!(n.is_power_of_two());
        (0..count)
            .map(|i| {
                let x = (point0 + i) as u16;
                let sh: Vec<u16> = (0..bits).map(|b| self.shat(b, x)).collect();
                // X_j(x) for all j < n by doubling
                let mut basis = vec![self.one(); n];
                for j in 1..n {
                    let b = j.trailing_zeros() as usize;
                    basis[j] = self.mul(basis[j & (j - 1)], sh[b]);
                }
                let mut v = 0u16;
                for j in 0..n {
                    v ^= self.mul(coeff[j], basis[j]);
                }
                v
            })
            .collect()
    }

    /// eval_poly reference: out[x] = sum_{j marked, j != x} log(x ^ j) mod 65535
    /// (result in 0..65535, where 0 and 65535 are the same residue).
    pub fn eval_poly_ref(&self, marked: &[usize], x: usize) -> u32 {
        let mut acc: u64 = 0;
        for &j in marked {
            if j != x {
                acc += self.log[x ^ j] as u64;
            }
        }
        (acc % 65535) as u32
    }

    /// eval_poly for ALL x at once, for any indicator vector: out[x] = sum_j e[j] * L[x ^ j] with
    /// L[0] = 0, L[y] = log(y), i.e. the XOR-convolution of the indicator with the log table. Computed
    /// exactly over the integers by the Walsh-Hadamard convolution theorem in i64 arithmetic (no
    /// modular shortcuts: |values| < 2^16 * 2^16 * 2^16 fits easily), reduced mod 65535 at the end.
    /// Cross-checked against `eval_poly_ref` (the plain definition) in `self_check_conv`.
    pub fn eval_poly_all(&self, marked: &[usize]) -> Vec<u32> {
        let n = ORDER;
        let mut e = vec![0i64; n];
        for &m in marked {
            e[m] = 1;
        }
        let mut l: Vec<i64> = (0..n).map(|y| if y == 0 { 0 } else { self.log[y] as i64 }).collect();
        wht(&mut e);
        wht(&mut l);
        for i in 0..n {
            e[i] *= l[i];
        }
        wht(&mut e);
        e.iter()
            .map(|v| {
                debug_assert!(v % n as i64 == 0);
                ((v / n as i64).rem_euclid(65535)) as u32
            })
            .collect()
    }

    pub fn self_check_conv(&self) -> u64 {
        let mut n = 0;
        for marked in [vec![5usize], vec![0, 1, 77, 4096, 65535], (100..140).collect::<Vec<_>>()] {
            let all = self.eval_poly_all(&marked);
            for x in (0..ORDER).step_by(257).chain([0, 1, 5, 77, 65535]) {
                assert_eq!(all[x], self.eval_poly_ref(&marked, x), "convolution reference disagrees with the definition at x={x}");
                n += 1;
            }
        }
        n
    }

    /// Skew table entry by definition: i in 0..65535; k = tz(i+1); w = i+1-2^k;
    /// value = log(shat_k(w)), or 65535 ("multiply by zero") when shat_k(w) = 0.
    pub fn skew_ref(&self, i: usize) -> u16 {
        let k = (i + 1).trailing_zeros() as usize;
        let w = i + 1 - (1 << k);
        let v = self.shat(k, w as u16);
        if v == 0 {
            MODULUS
        } else {
            self.log[v as usize]
        }
    }
}

impl Default for Field {
    fn default() -> Self {
        Self::new()
    }
}

// ----------------------------------------------------------------------
// byte placement of symbols inside a shard (property C04)

/// Symbols of a shard of even length, slot order: for each full 64-byte block 32 slots
/// (low byte at offset s, high byte at offset 32+s); for a final block of t bytes, t/2 slots
/// (low bytes first t/2, high bytes next t/2).
pub fn shard_to_symbols(shard: &[u8]) -> Vec<u16> {
    assert!(shard.len() % 2 == 0);
    let mut out = Vec::with_capacity(shard.len() / 2);
    let full = shard.len() / 64;
    for b in 0..full {
        let blk = &shard[b * 64..b * 64 + 64];
        for s in 0..32 {
            out.push(blk[s] as u16 | (blk[32 + s] as u16) << 8);
        }
    }
    let t = shard.len() % 64;
    if t > 0 {
        let blk = &shard[full * 64..];
        for s in 0..t / 2 {
            out.push(blk[s] as u16 | (blk[t / 2 + s] as u16) << 8);
        }
    }
    out
}

pub fn symbols_to_shard(sym: &[u16]) -> Vec<u8> {
    let len = sym.len() * 2;
    let mut out = vec![0u8; len];
    let full = len / 64;
    for b in 0..full {
        for s in 0..32 {
            let v = sym[b * 32 + s];
            out[b * 64 + s] = v as u8;
            out[b * 64 + 32 + s] = (v >> 8) as u8;
        }
    }
    let t = len % 64;
    if t > 0 {
        for s in 0..t / 2 {
            let v = sym[full * 32 + s];
            out[full * 64 + s] = v as u8;
            out[full * 64 + t / 2 + s] = (v >> 8) as u8;
        }
    }
    out
}

#[cfg(test)]
mod tests {
    use super::*;
    #[test]
    fn field_ok() {
        let f = Field::new();
        f.self_check(false);
        f.self_check_code();
        let g = f.generator(true, 3, 2);
        f.check_mds(&g).unwrap();
        let g = f.generator(false, 2, 3);
        f.check_mds(&g).unwrap();
        let sh: Vec<u8> = (0..130u32).map(|x| (x * 7 + 3) as u8).collect();
        assert_eq!(symbols_to_shard(&shard_to_symbols(&sh)), sh);
    }
}

/// in-place Walsh-Hadamard transform over the integers (unnormalised)
pub fn wht(a: &mut [i64]) {
    let n = a.len();
    let mut h = 1;
    while h < n {
        let mut i = 0;
        while i < n {
            for j in i..i + h {
                let (x, y) = (a[j], a[j + h]);
                a[j] = x + y;
                a[j + h] = x - y;
            }
            i += 2 * h;
        }
        h *= 2;
    }
}
